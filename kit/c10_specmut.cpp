#include "c10_specmut.h"

#include <algorithm>
#include <cmath>
#include <cstdio>
#include <functional>
#include <map>

using namespace libcellml;

namespace vp {
namespace c10 {

// ------------------------------------------------------------------------------------------------ locators

const char *kindName(Loc::Kind k)
{
    switch (k) {
    case Loc::MODEL: return "model";
    case Loc::COMP: return "component";
    case Loc::VAR: return "variable";
    case Loc::UNITS: return "units";
    case Loc::RESET: return "reset";
    case Loc::IMPORT: return "import_source";
    }
    return "?";
}

std::string locText(const ModelSpec &spec, const Loc &l)
{
    auto sz = [](int i) { return static_cast<size_t>(i); };
    switch (l.kind) {
    case Loc::MODEL: return "model '" + spec.name + "'";
    case Loc::COMP: return "component #" + std::to_string(l.ci) + " '" + spec.comps[sz(l.ci)].name + "' (encapsulation depth " + std::to_string(spec.depthOf(l.ci)) + ")";
    case Loc::VAR: return "variable #" + std::to_string(l.k) + " '" + spec.comps[sz(l.ci)].vars[sz(l.k)].name + "' of component #" + std::to_string(l.ci) + " '" + spec.comps[sz(l.ci)].name + "'";
    case Loc::RESET: return "reset #" + std::to_string(l.k) + " of component #" + std::to_string(l.ci) + " '" + spec.comps[sz(l.ci)].name + "'";
    case Loc::UNITS: return "units #" + std::to_string(l.ui) + " '" + spec.units[sz(l.ui)].name + "'";
    case Loc::IMPORT: return "import source #" + std::to_string(l.ii) + " '" + spec.imports[sz(l.ii)].url + "'";
    }
    return "?";
}

EntityPtr entityAt(const Built &b, const Loc &l)
{
    auto sz = [](int i) { return static_cast<size_t>(i); };
    switch (l.kind) {
    case Loc::MODEL: return b.model;
    case Loc::COMP: return b.comps[sz(l.ci)];
    case Loc::VAR: return b.vars[sz(l.ci)][sz(l.k)];
    case Loc::RESET: return b.resets[sz(l.ci)][sz(l.k)];
    case Loc::UNITS: return b.units[sz(l.ui)];
    case Loc::IMPORT: return b.imports[sz(l.ii)];
    }
    return nullptr;
}

Loc chooseLoc(const ModelSpec &spec, Src &src, const std::vector<Loc::Kind> &kinds)
{
    std::vector<std::pair<int, int>> vars, resets;
    for (size_t ci = 0; ci < spec.comps.size(); ++ci) {
        for (size_t k = 0; k < spec.comps[ci].vars.size(); ++k) {
            vars.emplace_back(static_cast<int>(ci), static_cast<int>(k));
        }
        for (size_t k = 0; k < spec.comps[ci].resets.size(); ++k) {
            resets.emplace_back(static_cast<int>(ci), static_cast<int>(k));
        }
    }
    std::vector<Loc::Kind> avail;
    for (auto k : kinds) {
        bool ok = k == Loc::MODEL || (k == Loc::COMP && !spec.comps.empty()) || (k == Loc::VAR && !vars.empty()) || (k == Loc::UNITS && !spec.units.empty())
                  || (k == Loc::RESET && !resets.empty()) || (k == Loc::IMPORT && !spec.imports.empty());
        if (ok) {
            avail.push_back(k);
        }
    }
    Loc l;
    if (avail.empty()) {
        return l;
    }
    l.kind = avail[src.below(avail.size())];
    switch (l.kind) {
    case Loc::MODEL: break;
    case Loc::COMP: l.ci = static_cast<int>(src.below(spec.comps.size())); break;
    case Loc::VAR: {
        auto p = vars[src.below(vars.size())];
        l.ci = p.first;
        l.k = p.second;
        break;
    }
    case Loc::RESET: {
        auto p = resets[src.below(resets.size())];
        l.ci = p.first;
        l.k = p.second;
        break;
    }
    case Loc::UNITS: l.ui = static_cast<int>(src.below(spec.units.size())); break;
    case Loc::IMPORT: l.ii = static_cast<int>(src.below(spec.imports.size())); break;
    }
    return l;
}

// ------------------------------------------------------------------------------------------------ reference equality

namespace {

size_t S(int i)
{
    return static_cast<size_t>(i);
}

std::string f(const std::string &s)
{
    return std::to_string(s.size()) + ":" + s + "|";
}

// coarse: values so small that the library's absolute tolerance (|a-b| <= DBL_EPSILON) cannot tell them apart are folded to 0
std::string dbl(double v, bool coarse)
{
    if (coarse && std::fabs(v) <= 1.1e-16) {
        return "0|";
    }
    char b[64];
    snprintf(b, sizeof b, "%.17g|", v);
    return b;
}

int unitsIndexByName(const ModelSpec &spec, const std::string &name)
{
    if (name.empty()) {
        return -1;
    }
    for (size_t ui = 0; ui < spec.units.size(); ++ui) {
        if (spec.units[ui].name == name) {
            return static_cast<int>(ui);
        }
    }
    return -1;
}

std::string importAttr(const ModelSpec &spec, int import, const std::string &ref)
{
    if (import < 0) {
        return "local|" + f(ref); // the import reference is an attribute of its own, also without an import source
    }
    return "imp|" + f(spec.imports[S(import)].url) + f(spec.imports[S(import)].id) + f(ref);
}

std::string unitsAttrs(const ModelSpec &spec, int ui, bool coarse)
{
    const auto &u = spec.units[S(ui)];
    std::string s = "U|" + f(u.name) + f(u.id) + importAttr(spec, u.import, u.importRef);
    std::vector<std::string> kids;
    for (const auto &c : u.units) {
        kids.push_back("unit|" + f(c.ref) + f(c.prefix) + dbl(c.exponent, coarse) + dbl(c.multiplier, coarse) + f(c.id));
    }
    std::sort(kids.begin(), kids.end());
    for (const auto &k : kids) {
        s += "[" + k + "]";
    }
    return s;
}

std::string unitsAttrsByName(const ModelSpec &spec, const std::string &name, bool coarse)
{
    if (name.empty()) {
        return "<none>";
    }
    int ui = unitsIndexByName(spec, name);
    if (ui >= 0) {
        return unitsAttrs(spec, ui, coarse);
    }
    return "U|" + f(name) + f("") + "local|" + f(""); // Variable::setUnits(name): a fresh, empty units object of that name
}

std::string varAttrs(const ModelSpec &spec, int ci, int k, bool coarse)
{
    const auto &v = spec.comps[S(ci)].vars[S(k)];
    return "V|" + f(v.name) + f(v.id) + f(v.initial) + f(v.iface) + "u=" + unitsAttrsByName(spec, v.units, coarse);
}

std::string resetAttrs(const ModelSpec &spec, int ci, int k, bool coarse)
{
    const auto &r = spec.comps[S(ci)].resets[S(k)];
    std::string s = "R|" + f(r.id) + std::to_string(r.hasOrder ? r.order : 0) + "|" + f(r.testValue) + f(r.resetValue) + f(r.testValueId) + f(r.resetValueId);
    s += "v=" + (r.var >= 0 ? varAttrs(spec, ci, r.var, coarse) : std::string("<none>"));
    s += "t=" + (r.testVar >= 0 ? varAttrs(spec, ci, r.testVar, coarse) : std::string("<none>"));
    return s;
}

RNode leaf(const std::string &attrs, const std::string &cattrs)
{
    RNode n;
    n.attrs = attrs;
    n.cattrs = cattrs;
    n.finalize();
    return n;
}

RNode compNode(const ModelSpec &spec, int ci)
{
    const auto &c = spec.comps[S(ci)];
    RNode n;
    std::string math;
    for (const auto &m : c.math) {
        math += m;
    }
    n.attrs = "C|" + f(c.name) + f(c.id) + f(c.encId) + importAttr(spec, c.import, c.importRef) + f(math);
    n.cattrs = n.attrs;
    for (size_t k = 0; k < c.vars.size(); ++k) {
        n.vars.push_back(leaf(varAttrs(spec, ci, static_cast<int>(k), false), varAttrs(spec, ci, static_cast<int>(k), true)));
    }
    for (size_t k = 0; k < c.resets.size(); ++k) {
        n.resets.push_back(leaf(resetAttrs(spec, ci, static_cast<int>(k), false), resetAttrs(spec, ci, static_cast<int>(k), true)));
    }
    for (int child : spec.childrenOf(ci)) {
        n.comps.push_back(compNode(spec, child));
    }
    n.finalize();
    return n;
}

std::vector<std::string> keysOf(const std::vector<RNode> &v, bool coarse = false)
{
    std::vector<std::string> k;
    for (const auto &n : v) {
        k.push_back(coarse ? n.ckey : n.key);
    }
    std::sort(k.begin(), k.end());
    return k;
}

} // namespace

void RNode::finalize()
{
    key = attrs;
    ckey = cattrs;
    const std::vector<RNode> *groups[4] = {&vars, &resets, &comps, &units};
    const char *tags[4] = {"vars", "resets", "comps", "units"};
    for (int g = 0; g < 4; ++g) {
        key += std::string("{") + tags[g];
        ckey += std::string("{") + tags[g];
        for (const auto &k : keysOf(*groups[g])) {
            key += "<" + k + ">";
        }
        for (const auto &k : keysOf(*groups[g], true)) {
            ckey += "<" + k + ">";
        }
        key += "}";
        ckey += "}";
    }
}

RNode refNode(const ModelSpec &spec, const Loc &l)
{
    switch (l.kind) {
    case Loc::MODEL: {
        RNode n;
        n.attrs = "M|" + f(spec.name) + f(spec.id) + f(spec.encId);
        n.cattrs = n.attrs;
        for (int c : spec.childrenOf(-1)) {
            n.comps.push_back(compNode(spec, c));
        }
        for (size_t ui = 0; ui < spec.units.size(); ++ui) {
            n.units.push_back(leaf(unitsAttrs(spec, static_cast<int>(ui), false), unitsAttrs(spec, static_cast<int>(ui), true)));
        }
        n.finalize();
        return n;
    }
    case Loc::COMP: return compNode(spec, l.ci);
    case Loc::VAR: return leaf(varAttrs(spec, l.ci, l.k, false), varAttrs(spec, l.ci, l.k, true));
    case Loc::RESET: return leaf(resetAttrs(spec, l.ci, l.k, false), resetAttrs(spec, l.ci, l.k, true));
    case Loc::UNITS: return leaf(unitsAttrs(spec, l.ui, false), unitsAttrs(spec, l.ui, true));
    case Loc::IMPORT: {
        std::string a = "I|" + f(spec.imports[S(l.ii)].url) + f(spec.imports[S(l.ii)].id);
        return leaf(a, a);
    }
    }
    return RNode();
}

namespace {

struct Flags
{
    bool sv = false, sr = false, su = false, mult = false;
    void merge(const Flags &o)
    {
        sv = sv || o.sv;
        sr = sr || o.sr;
        su = su || o.su;
        mult = mult || o.mult;
    }
};

bool includes(const std::vector<std::string> &small, const std::vector<std::string> &big)
{
    return std::includes(big.begin(), big.end(), small.begin(), small.end());
}

// 0: equal multisets, 1: one strictly includes the other, -1: neither
int leafGroup(const std::vector<RNode> &a, const std::vector<RNode> &b, bool coarse)
{
    auto ka = keysOf(a, coarse), kb = keysOf(b, coarse);
    if (ka == kb) {
        return 0;
    }
    if (includes(ka, kb) || includes(kb, ka)) {
        return 1;
    }
    return -1;
}

bool relaxedEq(const RNode &x, const RNode &y, Flags &fl, bool coarse);

bool sameKey(const RNode &x, const RNode &y, bool coarse)
{
    return coarse ? x.ckey == y.ckey : x.key == y.key;
}

bool matchComps(const std::vector<RNode> &xs, const std::vector<RNode> &ys, std::vector<bool> &used, size_t i, Flags &fl, bool coarse)
{
    if (i == xs.size()) {
        return true;
    }
    for (size_t j = 0; j < ys.size(); ++j) {
        if (used[j]) {
            continue;
        }
        Flags local;
        if (sameKey(xs[i], ys[j], coarse) || relaxedEq(xs[i], ys[j], local, coarse)) {
            used[j] = true;
            Flags rest;
            if (matchComps(xs, ys, used, i + 1, rest, coarse)) {
                fl.merge(local);
                fl.merge(rest);
                return true;
            }
            used[j] = false;
        }
    }
    return false;
}

bool everyHasPartner(const std::vector<RNode> &xs, const std::vector<RNode> &ys, Flags &fl, bool coarse)
{
    Flags acc;
    for (const auto &x : xs) {
        bool found = false;
        for (const auto &y : ys) {
            Flags local;
            if (sameKey(x, y, coarse) || relaxedEq(x, y, local, coarse)) {
                acc.merge(local);
                found = true;
                break;
            }
        }
        if (!found) {
            return false;
        }
    }
    fl.merge(acc);
    return true;
}

bool relaxedEq(const RNode &x, const RNode &y, Flags &fl, bool coarse)
{
    if (coarse ? x.cattrs != y.cattrs : x.attrs != y.attrs) {
        return false;
    }
    Flags acc;
    int g = leafGroup(x.vars, y.vars, coarse);
    if (g < 0) {
        return false;
    }
    acc.sv = g == 1;
    g = leafGroup(x.resets, y.resets, coarse);
    if (g < 0) {
        return false;
    }
    acc.sr = g == 1;
    g = leafGroup(x.units, y.units, coarse);
    if (g < 0) {
        return false;
    }
    acc.su = g == 1;
    if (x.comps.size() != y.comps.size()) {
        return false;
    }
    std::vector<bool> used(y.comps.size(), false);
    Flags m;
    if (matchComps(x.comps, y.comps, used, 0, m, coarse)) {
        acc.merge(m);
    } else {
        Flags m2;
        if (everyHasPartner(x.comps, y.comps, m2, coarse) || everyHasPartner(y.comps, x.comps, m2, coarse)) {
            acc.merge(m2);
            acc.mult = true;
        } else {
            return false;
        }
    }
    fl.merge(acc);
    return true;
}

} // namespace

std::string DiffClass::knownSig() const
{
    if (surplusVars) {
        return "C10.symmetry|count-mismatch:variables";
    }
    if (surplusResets) {
        return "C10.symmetry|count-mismatch:resets";
    }
    if (surplusUnits) {
        return "C10.symmetry|count-mismatch:units";
    }
    if (multiplicity) {
        return "C10.symmetry|multiplicity:components";
    }
    return "C10.detect|abs-epsilon:unit";
}

DiffClass classify(const RNode &x, const RNode &y)
{
    DiffClass d;
    d.differ = x.key != y.key;
    if (d.differ) {
        Flags fl;
        if (x.ckey == y.ckey) {
            d.knownOnly = true;
            d.tiny = true;
        } else if (relaxedEq(x, y, fl, false) || relaxedEq(x, y, fl, true)) {
            d.knownOnly = true;
            d.tiny = !relaxedEq(x, y, fl, false);
            d.surplusVars = fl.sv;
            d.surplusResets = fl.sr;
            d.surplusUnits = fl.su;
            d.multiplicity = fl.mult;
        }
    }
    return d;
}

// ------------------------------------------------------------------------------------------------ spec editing helpers

namespace {

void removeComp(ModelSpec &s, int ci, Loc &top)
{
    size_t n = s.comps.size();
    std::vector<bool> dead(n, false);
    dead[S(ci)] = true;
    for (size_t i = 0; i < n; ++i) {
        if (s.comps[i].parent >= 0 && dead[S(s.comps[i].parent)]) {
            dead[i] = true;
        }
    }
    std::vector<int> remap(n, -1);
    std::vector<CompSpec> keep;
    for (size_t i = 0; i < n; ++i) {
        if (!dead[i]) {
            remap[i] = static_cast<int>(keep.size());
            keep.push_back(s.comps[i]);
        }
    }
    for (auto &c : keep) {
        if (c.parent >= 0) {
            c.parent = remap[S(c.parent)];
        }
    }
    s.comps = keep;
    std::vector<ConnSpec> conns;
    for (auto cn : s.conns) {
        if (remap[S(cn.c1)] < 0 || remap[S(cn.c2)] < 0) {
            continue;
        }
        cn.c1 = remap[S(cn.c1)];
        cn.c2 = remap[S(cn.c2)];
        conns.push_back(cn);
    }
    s.conns = conns;
    if (top.ci >= 0) {
        top.ci = remap[S(top.ci)];
    }
}

void removeVar(ModelSpec &s, int ci, int k, Loc &top)
{
    auto &c = s.comps[S(ci)];
    c.vars.erase(c.vars.begin() + k);
    for (auto &r : c.resets) {
        for (int *p : {&r.var, &r.testVar}) {
            if (*p == k) {
                *p = -1;
            } else if (*p > k) {
                --*p;
            }
        }
    }
    std::vector<ConnSpec> conns;
    for (auto cn : s.conns) {
        std::vector<MapSpec> maps;
        for (auto mp : cn.maps) {
            bool drop = false;
            if (cn.c1 == ci) {
                if (mp.v1 == k) {
                    drop = true;
                } else if (mp.v1 > k) {
                    --mp.v1;
                }
            }
            if (cn.c2 == ci) {
                if (mp.v2 == k) {
                    drop = true;
                } else if (mp.v2 > k) {
                    --mp.v2;
                }
            }
            if (!drop) {
                maps.push_back(mp);
            }
        }
        cn.maps = maps;
        if (!cn.maps.empty()) {
            conns.push_back(cn);
        }
    }
    s.conns = conns;
    if (top.kind == Loc::VAR && top.ci == ci && top.k > k) {
        --top.k;
    }
}

bool isAncestorOrSelf(const ModelSpec &s, int anc, int c)
{
    while (c >= 0) {
        if (c == anc) {
            return true;
        }
        c = s.comps[S(c)].parent;
    }
    return false;
}

const char *kSimpleMath = "<apply><eq/><ci>q</ci><cn cellml:units=\"dimensionless\">1</cn></apply>";

std::string altText(const std::string &old, const std::vector<std::string> &alternatives, Src &src, const std::string &fallback)
{
    std::vector<std::string> opts;
    opts.push_back(old.empty() ? fallback : old + "_m");
    for (const auto &a : alternatives) {
        if (a != old && std::find(opts.begin(), opts.end(), a) == opts.end()) {
            opts.push_back(a);
        }
    }
    if (!old.empty()) {
        opts.push_back("");
    }
    return opts[src.below(opts.size())];
}

double altDouble(double old, Src &src)
{
    switch (src.below(3)) {
    case 0: return old * (1.0 + 1e-6);
    case 1: return old + 1.0;
    default: return -old;
    }
}

struct Scope
{
    bool model = false;
    std::set<int> comps, units, imports;
    std::set<std::pair<int, int>> vars, resets;
};

Scope scopeOf(const ModelSpec &spec, const Loc &top)
{
    Scope sc;
    auto addComp = [&](int ci) {
        sc.comps.insert(ci);
        for (size_t k = 0; k < spec.comps[S(ci)].vars.size(); ++k) {
            sc.vars.insert({ci, static_cast<int>(k)});
        }
        for (size_t k = 0; k < spec.comps[S(ci)].resets.size(); ++k) {
            sc.resets.insert({ci, static_cast<int>(k)});
        }
    };
    switch (top.kind) {
    case Loc::MODEL:
        sc.model = true;
        for (size_t ci = 0; ci < spec.comps.size(); ++ci) {
            addComp(static_cast<int>(ci));
        }
        for (size_t ui = 0; ui < spec.units.size(); ++ui) {
            sc.units.insert(static_cast<int>(ui));
        }
        break;
    case Loc::COMP:
        for (size_t ci = 0; ci < spec.comps.size(); ++ci) {
            if (isAncestorOrSelf(spec, top.ci, static_cast<int>(ci))) {
                addComp(static_cast<int>(ci));
            }
        }
        break;
    case Loc::VAR:
        sc.vars.insert({top.ci, top.k});
        break;
    case Loc::RESET: {
        sc.resets.insert({top.ci, top.k});
        const auto &r = spec.comps[S(top.ci)].resets[S(top.k)];
        if (r.var >= 0) {
            sc.vars.insert({top.ci, r.var});
        }
        if (r.testVar >= 0) {
            sc.vars.insert({top.ci, r.testVar});
        }
        break;
    }
    case Loc::UNITS:
        sc.units.insert(top.ui);
        break;
    case Loc::IMPORT:
        sc.imports.insert(top.ii);
        break;
    }
    for (const auto &v : sc.vars) {
        int ui = unitsIndexByName(spec, spec.comps[S(v.first)].vars[S(v.second)].units);
        if (ui >= 0) {
            sc.units.insert(ui);
        }
    }
    for (int ci : sc.comps) {
        if (spec.comps[S(ci)].import >= 0) {
            sc.imports.insert(spec.comps[S(ci)].import);
        }
    }
    for (int ui : sc.units) {
        if (spec.units[S(ui)].import >= 0) {
            sc.imports.insert(spec.units[S(ui)].import);
        }
    }
    return sc;
}

// site: M model, U units, u unit child, I import, C component, V variable, R reset
int siteDepth(const ModelSpec &spec, const Loc &top, char site, int ci)
{
    int rel = 0;
    switch (top.kind) {
    case Loc::MODEL:
        switch (site) {
        case 'M': return 0;
        case 'U': return 1;
        case 'u': return 2;
        case 'I': return 2;
        case 'C': return 1 + spec.depthOf(ci);
        default: return 2 + spec.depthOf(ci);
        }
    case Loc::COMP:
        rel = ci >= 0 ? std::max(0, spec.depthOf(ci) - spec.depthOf(top.ci)) : 0;
        switch (site) {
        case 'C': return rel;
        case 'V':
        case 'R': return rel + 1;
        case 'U': return 2;
        case 'u': return 3;
        default: return 1;
        }
    case Loc::VAR:
        return site == 'V' ? 0 : (site == 'U' ? 1 : 2);
    case Loc::RESET:
        return site == 'R' ? 0 : (site == 'V' ? 1 : (site == 'U' ? 2 : 3));
    case Loc::UNITS:
        return site == 'U' ? 0 : 1;
    case Loc::IMPORT:
        return 0;
    }
    return 0;
}

} // namespace

// ------------------------------------------------------------------------------------------------ math token mutation

std::string mutateMath(const std::string &m, Src &src)
{
    std::vector<std::pair<size_t, int>> pos;
    for (size_t p = m.find("</ci>"); p != std::string::npos; p = m.find("</ci>", p + 1)) {
        pos.emplace_back(p, 0);
    }
    for (size_t p = m.find("</cn>"); p != std::string::npos; p = m.find("</cn>", p + 1)) {
        pos.emplace_back(p, 1);
    }
    if (!pos.empty()) {
        auto ch = pos[src.below(pos.size())];
        std::string r = m;
        r.insert(ch.first, ch.second == 0 ? "_m" : "1");
        return r;
    }
    for (const auto &sw : std::vector<std::pair<std::string, std::string>> {{"<true/>", "<false/>"}, {"<false/>", "<true/>"}, {"<pi/>", "<exponentiale/>"}, {"<exponentiale/>", "<pi/>"}}) {
        size_t p = m.find(sw.first);
        if (p != std::string::npos) {
            std::string r = m;
            r.replace(p, sw.first.size(), sw.second);
            return r;
        }
    }
    return m + mathBlockRaw("<ci>m</ci>", 0);
}

// ------------------------------------------------------------------------------------------------ shapes

std::string applyShape(ModelSpec &spec, Src &src)
{
    struct Opt
    {
        std::string label;
        std::function<void()> run;
    };
    std::vector<Opt> opts;
    for (size_t ci = 0; ci < spec.comps.size(); ++ci) {
        const int c = static_cast<int>(ci);
        // the twin of a component: same subtree again under the same parent
        opts.push_back({"dup.comp", [&spec, c]() {
                            size_t n = spec.comps.size();
                            std::map<int, int> remap;
                            for (size_t i = 0; i < n; ++i) {
                                if (isAncestorOrSelf(spec, c, static_cast<int>(i))) {
                                    CompSpec copy = spec.comps[i];
                                    if (static_cast<int>(i) != c) {
                                        copy.parent = remap[copy.parent];
                                    }
                                    remap[static_cast<int>(i)] = static_cast<int>(spec.comps.size());
                                    spec.comps.push_back(copy);
                                }
                            }
                        }});
        if (!spec.comps[ci].vars.empty()) {
            opts.push_back({"dup.var", [&spec, &src, ci]() {
                                auto &vars = spec.comps[ci].vars;
                                VarSpec copy = vars[src.below(vars.size())];
                                vars.push_back(copy);
                            }});
        }
        if (!spec.comps[ci].resets.empty()) {
            auto &resets = spec.comps[ci].resets;
            opts.push_back({"dup.reset", [&resets, &src]() {
                                ResetSpec copy = resets[src.below(resets.size())];
                                resets.push_back(copy);
                            }});
            opts.push_back({"reset.no-order", [&resets, &src]() {
                                auto &r = resets[src.below(resets.size())];
                                r.hasOrder = false;
                                r.order = 0;
                            }});
            opts.push_back({"reset.no-variable", [&resets, &src]() {
                                auto &r = resets[src.below(resets.size())];
                                if (src.flip(50)) {
                                    r.var = -1;
                                } else {
                                    r.testVar = -1;
                                }
                            }});
            opts.push_back({"reset.no-value", [&resets, &src]() {
                                auto &r = resets[src.below(resets.size())];
                                if (src.flip(50)) {
                                    r.testValue.clear();
                                } else {
                                    r.resetValue.clear();
                                }
                            }});
        }
    }
    for (size_t ui = 0; ui < spec.units.size(); ++ui) {
        opts.push_back({"dup.units", [&spec, ui]() {
                            UnitsSpec copy = spec.units[ui];
                            spec.units.push_back(copy);
                        }});
        if (!spec.units[ui].units.empty()) {
            auto &kids = spec.units[ui].units;
            opts.push_back({"dup.unit", [&kids, &src]() {
                                UnitSpec copy = kids[src.below(kids.size())];
                                kids.push_back(copy);
                            }});
            opts.push_back({"unit.tiny", [&kids, &src]() {
                                auto &k = kids[src.below(kids.size())];
                                if (src.flip(30)) {
                                    k.exponent = 3e-19;
                                } else {
                                    k.multiplier = src.flip(50) ? 1e-20 : 5e-17;
                                }
                            }});
        }
    }
    if (opts.empty()) {
        return "";
    }
    // choose the kind first so that rare kinds are not drowned by frequent ones
    std::vector<std::string> labels;
    for (const auto &o : opts) {
        if (std::find(labels.begin(), labels.end(), o.label) == labels.end()) {
            labels.push_back(o.label);
        }
    }
    const std::string label = labels[src.below(labels.size())];
    std::vector<size_t> idx;
    for (size_t i = 0; i < opts.size(); ++i) {
        if (opts[i].label == label) {
            idx.push_back(i);
        }
    }
    opts[idx[src.below(idx.size())]].run();
    return label;
}

// ------------------------------------------------------------------------------------------------ mutation catalogue

std::vector<Mut> enumerateMutations(const ModelSpec &spec, const Loc &top, Where where)
{
    std::vector<Mut> out;
    const Scope sc = scopeOf(spec, top);
    if (where == LOCAL_IMPORT_REFERENCE) {
        auto add = [&](const std::string &kind, bool inside, char site, int ci, int ui) {
            Mut m;
            m.kind = kind;
            m.inside = inside;
            m.depth = inside ? siteDepth(spec, top, site, ci) : -1;
            m.ci = ci;
            m.ui = ui;
            out.push_back(m);
        };
        for (size_t u = 0; u < spec.units.size(); ++u) {
            add(spec.units[u].import < 0 ? "units.local-import-ref" : "units.import-source-removed", sc.units.count(static_cast<int>(u)) != 0, 'U', -1, static_cast<int>(u));
        }
        for (size_t ci = 0; ci < spec.comps.size(); ++ci) {
            add(spec.comps[ci].import < 0 ? "comp.local-import-ref" : "comp.import-source-removed", sc.comps.count(static_cast<int>(ci)) != 0, 'C', static_cast<int>(ci), -1);
        }
        // prefer sites the top entity's equality covers
        std::vector<Mut> in;
        for (const auto &m : out) {
            if (m.inside) {
                in.push_back(m);
            }
        }
        return in.empty() ? out : in;
    }
    auto push = [&](const std::string &kind, bool inside, char site, int ci, int k, int ui, int uk, int ii, int bump = 0) {
        if (where == EQUIVALENCES || (where == INSIDE && !inside)) {
            return;
        }
        Mut m;
        m.kind = kind;
        m.inside = inside;
        m.depth = inside ? siteDepth(spec, top, site, ci) + bump : -1;
        m.ci = ci;
        m.k = k;
        m.ui = ui;
        m.uk = uk;
        m.ii = ii;
        out.push_back(m);
    };
    // model
    for (const char *kd : {"model.name", "model.id", "model.encId"}) {
        push(kd, sc.model, 'M', -1, -1, -1, -1, -1);
    }
    push("units.add", sc.model, 'U', -1, -1, -1, -1, -1);
    push("comp.add", sc.model, 'C', -1, -1, -1, -1, -1);
    // units
    for (size_t u = 0; u < spec.units.size(); ++u) {
        const int ui = static_cast<int>(u);
        const bool in = sc.units.count(ui) != 0;
        const auto &us = spec.units[u];
        push("units.name", in, 'U', -1, -1, ui, -1, -1);
        push("units.id", in, 'U', -1, -1, ui, -1, -1);
        push("units.import-toggle", in, 'U', -1, -1, ui, -1, -1);
        if (us.import >= 0) {
            push("units.import-ref", in, 'U', -1, -1, ui, -1, -1);
            if (spec.imports.size() >= 2) {
                push("units.import-switch", in, 'U', -1, -1, ui, -1, -1);
            }
        }
        if (!(top.kind == Loc::UNITS && top.ui == ui)) {
            push("units.remove", in, 'U', -1, -1, ui, -1, -1);
        }
        push("unit.add", in, 'u', -1, -1, ui, -1, -1);
        for (size_t k = 0; k < us.units.size(); ++k) {
            const int uk = static_cast<int>(k);
            for (const char *kd : {"unit.remove", "unit.ref", "unit.prefix", "unit.exponent", "unit.multiplier", "unit.id"}) {
                push(kd, in, 'u', -1, -1, ui, uk, -1);
            }
            if (us.units.size() >= 2) {
                push("unit.clone-sibling", in, 'u', -1, -1, ui, uk, -1);
            }
        }
    }
    // import sources
    for (size_t i = 0; i < spec.imports.size(); ++i) {
        const int ii = static_cast<int>(i);
        const bool in = sc.imports.count(ii) != 0;
        push("import.url", in, 'I', -1, -1, -1, -1, ii);
        push("import.id", in, 'I', -1, -1, -1, -1, ii);
    }
    // components
    for (size_t c = 0; c < spec.comps.size(); ++c) {
        const int ci = static_cast<int>(c);
        const bool in = sc.comps.count(ci) != 0;
        const auto &cs = spec.comps[c];
        for (const char *kd : {"comp.name", "comp.id", "comp.encId", "comp.math", "comp.import-toggle"}) {
            push(kd, in, 'C', ci, -1, -1, -1, -1);
        }
        if (!cs.math.empty()) {
            push("comp.math-drop", in, 'C', ci, -1, -1, -1, -1);
        }
        if (cs.import >= 0) {
            push("comp.import-ref", in, 'C', ci, -1, -1, -1, -1);
            if (spec.imports.size() >= 2) {
                push("comp.import-switch", in, 'C', ci, -1, -1, -1, -1);
            }
        }
        // removing a component must not remove the top entity
        bool killsTop = (top.kind == Loc::COMP || top.kind == Loc::VAR || top.kind == Loc::RESET) && isAncestorOrSelf(spec, ci, top.ci);
        if (!killsTop) {
            push("comp.remove", in, 'C', ci, -1, -1, -1, -1);
        }
        // children added to this component
        push("comp.add", in, 'C', ci, -1, -1, -1, -1, 1);
        push("var.add", in, 'V', ci, -1, -1, -1, -1);
        push("reset.add", in, 'R', ci, -1, -1, -1, -1);
        for (size_t k = 0; k < cs.vars.size(); ++k) {
            const int vk = static_cast<int>(k);
            const bool vin = sc.vars.count({ci, vk}) != 0;
            for (const char *kd : {"var.name", "var.id", "var.units", "var.initial", "var.iface"}) {
                push(kd, vin, 'V', ci, vk, -1, -1, -1);
            }
            if (cs.vars.size() >= 2) {
                push("var.clone-sibling", vin, 'V', ci, vk, -1, -1, -1);
            }
            if (!(top.kind == Loc::VAR && top.ci == ci && top.k == vk)) {
                push("var.remove", vin, 'V', ci, vk, -1, -1, -1);
            }
        }
        for (size_t k = 0; k < cs.resets.size(); ++k) {
            const int rk = static_cast<int>(k);
            const bool rin = sc.resets.count({ci, rk}) != 0;
            for (const char *kd : {"reset.id", "reset.order", "reset.variable", "reset.test-variable", "reset.test-value", "reset.reset-value", "reset.test-value-id", "reset.reset-value-id"}) {
                push(kd, rin, 'R', ci, rk, -1, -1, -1);
            }
            if (cs.resets.size() >= 2) {
                push("reset.clone-sibling", rin, 'R', ci, rk, -1, -1, -1);
            }
            if (!(top.kind == Loc::RESET && top.ci == ci && top.k == rk)) {
                push("reset.remove", rin, 'R', ci, rk, -1, -1, -1);
            }
        }
    }
    // equivalence edits: never covered by equality
    if (where != INSIDE) {
        auto pushEq = [&](const std::string &kind, int cn, int mp) {
            Mut m;
            m.kind = kind;
            m.inside = false;
            m.covered = false;
            m.depth = -1;
            m.cn = cn;
            m.mp = mp;
            out.push_back(m);
        };
        size_t withVars = 0;
        for (const auto &c : spec.comps) {
            withVars += c.vars.empty() ? 0 : 1;
        }
        if (withVars >= 2) {
            pushEq("equivalence.add", -1, -1);
        }
        for (size_t cn = 0; cn < spec.conns.size(); ++cn) {
            pushEq("equivalence.connection-id", static_cast<int>(cn), -1);
            for (size_t mp = 0; mp < spec.conns[cn].maps.size(); ++mp) {
                pushEq("equivalence.mapping-id", static_cast<int>(cn), static_cast<int>(mp));
                pushEq("equivalence.remove", static_cast<int>(cn), static_cast<int>(mp));
            }
        }
    }
    return out;
}

Mut chooseMutation(const ModelSpec &spec, const Loc &top, Src &src, Where where, bool *found)
{
    std::vector<Mut> all = enumerateMutations(spec, top, where);
    *found = !all.empty();
    if (all.empty()) {
        return Mut();
    }
    std::vector<std::string> kinds;
    for (const auto &m : all) {
        if (std::find(kinds.begin(), kinds.end(), m.kind) == kinds.end()) {
            kinds.push_back(m.kind);
        }
    }
    // adding / removing a variable, reset or units mostly yields pairs that fall under the listed surplus finding and are
    // excluded from the assertions: keep those kinds in the catalogue, but at a lower rate
    if (src.below(10) < 6) {
        std::vector<std::string> rest;
        for (const auto &k : kinds) {
            if (k != "var.add" && k != "var.remove" && k != "reset.add" && k != "reset.remove" && k != "units.add" && k != "units.remove") {
                rest.push_back(k);
            }
        }
        if (!rest.empty()) {
            kinds = rest;
        }
    }
    const std::string kind = kinds[src.below(kinds.size())];
    std::vector<size_t> idx;
    for (size_t i = 0; i < all.size(); ++i) {
        if (all[i].kind == kind) {
            idx.push_back(i);
        }
    }
    return all[idx[src.below(idx.size())]];
}

std::string applyMutation(ModelSpec &spec, const Mut &m, Src &src, Loc &top)
{
    const std::string &kd = m.kind;
    std::string what = kd;
    auto chg = [&](std::string &field, const std::vector<std::string> &alts, const std::string &fallback) {
        std::string old = field;
        field = altText(old, alts, src, fallback);
        what += " '" + old + "' -> '" + field + "'";
    };
    auto ensureImport = [&]() -> int {
        if (spec.imports.empty()) {
            ImportSpec is;
            is.url = "added.cellml";
            spec.imports.push_back(is);
        }
        return static_cast<int>(src.below(spec.imports.size()));
    };
    auto otherImport = [&](int cur) -> int {
        int n = static_cast<int>(spec.imports.size());
        int o = static_cast<int>(src.below(static_cast<uint64_t>(n - 1)));
        return o >= cur ? o + 1 : o;
    };
    std::vector<std::string> compNames, unitsNames, ids;
    for (const auto &c : spec.comps) {
        compNames.push_back(c.name);
        if (!c.id.empty()) {
            ids.push_back(c.id);
        }
    }
    for (const auto &u : spec.units) {
        unitsNames.push_back(u.name);
    }

    if (kd == "model.name") {
        chg(spec.name, {}, "m");
    } else if (kd == "model.id") {
        chg(spec.id, ids, "mid");
    } else if (kd == "model.encId") {
        chg(spec.encId, ids, "menc");
    } else if (kd == "units.add") {
        UnitsSpec u;
        if (!spec.units.empty() && src.flip(30)) {
            u = spec.units[src.below(spec.units.size())]; // a second copy of an existing definition
        } else {
            u.name = "u_new";
            if (src.flip(50)) {
                UnitSpec c;
                c.ref = "second";
                u.units.push_back(c);
            }
        }
        spec.units.push_back(u);
        what += " '" + u.name + "'";
    } else if (kd == "comp.add") {
        CompSpec c;
        c.name = "c_new";
        c.parent = m.ci;
        if (src.flip(50)) {
            VarSpec v;
            v.name = "w";
            v.units = "dimensionless";
            c.vars.push_back(v);
        }
        spec.comps.push_back(c);
        what += " under #" + std::to_string(m.ci);
    } else if (kd == "units.local-import-ref" || kd == "comp.local-import-ref") {
        std::string &ref = kd[0] == 'u' ? spec.units[S(m.ui)].importRef : spec.comps[S(m.ci)].importRef;
        what += kd[0] == 'u' ? " units #" + std::to_string(m.ui) : " component #" + std::to_string(m.ci);
        chg(ref, {}, "ref_l");
    } else if (kd == "units.import-source-removed" || kd == "comp.import-source-removed") {
        // the import source goes, the reference stays behind
        (kd[0] == 'u' ? spec.units[S(m.ui)].import : spec.comps[S(m.ci)].import) = -1;
        what += kd[0] == 'u' ? " units #" + std::to_string(m.ui) : " component #" + std::to_string(m.ci);
    } else if (kd.rfind("units.", 0) == 0) {
        auto &u = spec.units[S(m.ui)];
        what += " units #" + std::to_string(m.ui) + " '" + u.name + "'";
        if (kd == "units.name") {
            chg(u.name, unitsNames, "u");
        } else if (kd == "units.id") {
            chg(u.id, ids, "uid");
        } else if (kd == "units.import-toggle") {
            if (u.import >= 0) {
                u.import = -1;
                u.importRef.clear();
                what += " -> local";
            } else {
                u.import = ensureImport();
                u.importRef = "ref_m";
                what += " -> imported";
            }
        } else if (kd == "units.import-ref") {
            chg(u.importRef, {}, "ref");
        } else if (kd == "units.import-switch") {
            u.import = otherImport(u.import);
            what += " -> import #" + std::to_string(u.import);
        } else if (kd == "units.remove") {
            spec.units.erase(spec.units.begin() + m.ui);
            if (top.kind == Loc::UNITS && top.ui > m.ui) {
                --top.ui;
            }
        }
    } else if (kd.rfind("unit.", 0) == 0) {
        auto &u = spec.units[S(m.ui)];
        what += " units #" + std::to_string(m.ui) + " '" + u.name + "' child " + std::to_string(m.uk);
        if (kd == "unit.add") {
            UnitSpec c;
            if (!u.units.empty() && src.flip(30)) {
                c = u.units[src.below(u.units.size())];
            } else {
                c.ref = src.flip(50) ? "second" : "metre";
            }
            u.units.push_back(c);
        } else if (kd == "unit.remove") {
            u.units.erase(u.units.begin() + m.uk);
        } else {
            auto &c = u.units[S(m.uk)];
            if (kd == "unit.ref") {
                std::vector<std::string> alts = {"metre", "second", "kilogram"};
                alts.insert(alts.end(), unitsNames.begin(), unitsNames.end());
                chg(c.ref, alts, "metre");
            } else if (kd == "unit.prefix") {
                std::string old = c.prefix;
                std::vector<std::string> alts;
                for (const char *p : {"", "kilo", "milli", "3", "-2", "+3", "mega"}) {
                    if (old != p) {
                        alts.push_back(p);
                    }
                }
                c.prefix = alts[src.below(alts.size())];
                what += " '" + old + "' -> '" + c.prefix + "'";
            } else if (kd == "unit.exponent") {
                double old = c.exponent;
                c.exponent = altDouble(old, src);
                what += " " + fmtDouble(old) + " -> " + fmtDouble(c.exponent);
            } else if (kd == "unit.multiplier") {
                double old = c.multiplier;
                c.multiplier = altDouble(old, src);
                what += " " + fmtDouble(old) + " -> " + fmtDouble(c.multiplier);
            } else if (kd == "unit.id") {
                chg(c.id, ids, "unitid");
            } else if (kd == "unit.clone-sibling") {
                size_t o = src.below(u.units.size() - 1);
                if (o >= S(m.uk)) {
                    ++o;
                }
                c = u.units[o];
                what += " := child " + std::to_string(o);
            }
        }
    } else if (kd == "import.url") {
        chg(spec.imports[S(m.ii)].url, {"lib0.cellml", "sub/lib1.cellml"}, "x.cellml");
    } else if (kd == "import.id") {
        chg(spec.imports[S(m.ii)].id, ids, "impid");
    } else if (kd.rfind("comp.", 0) == 0) {
        auto &c = spec.comps[S(m.ci)];
        what += " component #" + std::to_string(m.ci) + " '" + c.name + "'";
        if (kd == "comp.name") {
            chg(c.name, compNames, "c");
        } else if (kd == "comp.id") {
            chg(c.id, ids, "cid");
        } else if (kd == "comp.encId") {
            chg(c.encId, ids, "cenc");
        } else if (kd == "comp.math") {
            if (c.math.empty()) {
                c.math.push_back(mathBlockRaw(kSimpleMath, 0));
                what += " (block added)";
            } else {
                size_t b = src.below(c.math.size());
                c.math[b] = mutateMath(c.math[b], src);
                what += " (token changed in block " + std::to_string(b) + ")";
            }
        } else if (kd == "comp.math-drop") {
            c.math.pop_back();
        } else if (kd == "comp.import-toggle") {
            if (c.import >= 0) {
                c.import = -1;
                c.importRef.clear();
                what += " -> local";
            } else {
                c.import = ensureImport();
                c.importRef = "cref_m";
                what += " -> imported";
            }
        } else if (kd == "comp.import-ref") {
            chg(c.importRef, {}, "ref");
        } else if (kd == "comp.import-switch") {
            c.import = otherImport(c.import);
            what += " -> import #" + std::to_string(c.import);
        } else if (kd == "comp.remove") {
            removeComp(spec, m.ci, top);
        }
    } else if (kd == "var.add") {
        auto &c = spec.comps[S(m.ci)];
        VarSpec v;
        if (!c.vars.empty() && src.flip(30)) {
            v = c.vars[src.below(c.vars.size())];
        } else {
            v.name = "v_new";
            v.units = src.flip(50) ? "dimensionless" : "";
        }
        c.vars.push_back(v);
        what += " '" + v.name + "' to component #" + std::to_string(m.ci);
    } else if (kd == "reset.add") {
        auto &c = spec.comps[S(m.ci)];
        ResetSpec r;
        if (!c.resets.empty() && src.flip(30)) {
            r = c.resets[src.below(c.resets.size())];
        } else {
            r.var = c.vars.empty() ? -1 : static_cast<int>(src.below(c.vars.size()));
            r.testVar = c.vars.empty() ? -1 : static_cast<int>(src.below(c.vars.size()));
            r.hasOrder = src.flip(70);
            r.order = r.hasOrder ? 100 + static_cast<int>(src.below(3)) : 0;
            r.testValue = mathBlockRaw("<ci>t</ci>", 0);
            r.resetValue = mathBlockRaw("<cn cellml:units=\"dimensionless\">0</cn>", 0);
        }
        c.resets.push_back(r);
        what += " to component #" + std::to_string(m.ci);
    } else if (kd.rfind("var.", 0) == 0) {
        auto &c = spec.comps[S(m.ci)];
        what += " variable #" + std::to_string(m.k) + " '" + c.vars[S(m.k)].name + "' of component #" + std::to_string(m.ci);
        if (kd == "var.remove") {
            removeVar(spec, m.ci, m.k, top);
        } else {
            auto &v = c.vars[S(m.k)];
            std::vector<std::string> sibNames;
            for (const auto &o : c.vars) {
                sibNames.push_back(o.name);
            }
            if (kd == "var.name") {
                chg(v.name, sibNames, "v");
            } else if (kd == "var.id") {
                chg(v.id, ids, "vid");
            } else if (kd == "var.units") {
                std::vector<std::string> alts = unitsNames;
                alts.push_back("second");
                alts.push_back("volt");
                alts.push_back("unknown_units");
                chg(v.units, alts, "second");
            } else if (kd == "var.initial") {
                std::vector<std::string> alts = {"1", "2.5", "0"};
                alts.insert(alts.end(), sibNames.begin(), sibNames.end());
                chg(v.initial, alts, "1");
            } else if (kd == "var.iface") {
                std::string old = v.iface;
                std::vector<std::string> alts;
                for (const char *p : {"", "none", "public", "private", "public_and_private"}) {
                    if (old != p) {
                        alts.push_back(p);
                    }
                }
                v.iface = alts[src.below(alts.size())];
                what += " '" + old + "' -> '" + v.iface + "'";
            } else if (kd == "var.clone-sibling") {
                size_t o = src.below(c.vars.size() - 1);
                if (o >= S(m.k)) {
                    ++o;
                }
                v = c.vars[o];
                what += " := variable #" + std::to_string(o);
            }
        }
    } else if (kd.rfind("reset.", 0) == 0) {
        auto &c = spec.comps[S(m.ci)];
        what += " reset #" + std::to_string(m.k) + " of component #" + std::to_string(m.ci);
        if (kd == "reset.remove") {
            c.resets.erase(c.resets.begin() + m.k);
            if (top.kind == Loc::RESET && top.ci == m.ci && top.k > m.k) {
                --top.k;
            }
        } else {
            auto &r = c.resets[S(m.k)];
            auto otherVar = [&](int cur) -> int {
                // a different value in [-1, nvars)
                int n = static_cast<int>(c.vars.size()) + 1;
                if (n <= 1) {
                    return cur;
                }
                int o = static_cast<int>(src.below(static_cast<uint64_t>(n - 1)));
                int curShift = cur + 1;
                if (o >= curShift) {
                    ++o;
                }
                return o - 1;
            };
            if (kd == "reset.id") {
                chg(r.id, ids, "rid");
            } else if (kd == "reset.order") {
                int old = r.hasOrder ? r.order : 0;
                r.hasOrder = true;
                r.order = old + 1 + static_cast<int>(src.below(3));
                what += " " + std::to_string(old) + " -> " + std::to_string(r.order);
            } else if (kd == "reset.variable") {
                int old = r.var;
                r.var = otherVar(old);
                what += " " + std::to_string(old) + " -> " + std::to_string(r.var);
            } else if (kd == "reset.test-variable") {
                int old = r.testVar;
                r.testVar = otherVar(old);
                what += " " + std::to_string(old) + " -> " + std::to_string(r.testVar);
            } else if (kd == "reset.test-value") {
                r.testValue = mutateMath(r.testValue, src);
            } else if (kd == "reset.reset-value") {
                r.resetValue = mutateMath(r.resetValue, src);
            } else if (kd == "reset.test-value-id") {
                chg(r.testValueId, ids, "tvid");
            } else if (kd == "reset.reset-value-id") {
                chg(r.resetValueId, ids, "rvid");
            } else if (kd == "reset.clone-sibling") {
                size_t o = src.below(c.resets.size() - 1);
                if (o >= S(m.k)) {
                    ++o;
                }
                r = c.resets[o];
                what += " := reset #" + std::to_string(o);
            }
        }
    } else if (kd == "equivalence.add") {
        std::vector<int> cs;
        for (size_t ci = 0; ci < spec.comps.size(); ++ci) {
            if (!spec.comps[ci].vars.empty()) {
                cs.push_back(static_cast<int>(ci));
            }
        }
        size_t a = src.below(cs.size());
        size_t b = src.below(cs.size() - 1);
        if (b >= a) {
            ++b;
        }
        ConnSpec cn;
        cn.c1 = cs[std::min(a, b)];
        cn.c2 = cs[std::max(a, b)];
        cn.id = src.flip(50) ? "conn_m" : "";
        MapSpec mp;
        mp.v1 = static_cast<int>(src.below(spec.comps[S(cn.c1)].vars.size()));
        mp.v2 = static_cast<int>(src.below(spec.comps[S(cn.c2)].vars.size()));
        mp.id = src.flip(50) ? "map_m" : "";
        cn.maps.push_back(mp);
        spec.conns.push_back(cn);
        what += " #" + std::to_string(cn.c1) + "." + std::to_string(mp.v1) + " <-> #" + std::to_string(cn.c2) + "." + std::to_string(mp.v2);
    } else if (kd == "equivalence.connection-id") {
        chg(spec.conns[S(m.cn)].id, ids, "conn_m");
    } else if (kd == "equivalence.mapping-id") {
        chg(spec.conns[S(m.cn)].maps[S(m.mp)].id, ids, "map_m");
    } else if (kd == "equivalence.remove") {
        auto &cn = spec.conns[S(m.cn)];
        cn.maps.erase(cn.maps.begin() + m.mp);
        if (cn.maps.empty()) {
            spec.conns.erase(spec.conns.begin() + m.cn);
        }
    }
    return what;
}

// ------------------------------------------------------------------------------------------------ import reference without source

void applyLocalImportReferences(const ModelSpec &spec, const Built &b, bool viaSource)
{
    auto apply = [&](const ImportedEntityPtr &e, const std::string &ref) {
        if (viaSource) {
            auto tmp = ImportSource::create();
            tmp->setUrl("once_imported.cellml");
            e->setImportSource(tmp);
            e->setImportReference(ref);
            e->setImportSource(nullptr);
        } else {
            e->setImportReference(ref);
        }
    };
    for (size_t ui = 0; ui < spec.units.size(); ++ui) {
        if (spec.units[ui].import < 0 && !spec.units[ui].importRef.empty()) {
            apply(b.units[ui], spec.units[ui].importRef);
        }
    }
    for (size_t ci = 0; ci < spec.comps.size(); ++ci) {
        if (spec.comps[ci].import < 0 && !spec.comps[ci].importRef.empty()) {
            apply(b.comps[ci], spec.comps[ci].importRef);
        }
    }
}

std::string addLocalImportReference(ModelSpec &spec, uint64_t pick, const std::string &reference)
{
    std::vector<std::pair<char, size_t>> sites;
    for (size_t ci = 0; ci < spec.comps.size(); ++ci) {
        if (spec.comps[ci].import < 0) {
            sites.emplace_back('c', ci);
        }
    }
    for (size_t ui = 0; ui < spec.units.size(); ++ui) {
        if (spec.units[ui].import < 0) {
            sites.emplace_back('u', ui);
        }
    }
    if (sites.empty()) {
        return "";
    }
    auto s = sites[pick % sites.size()];
    if (s.first == 'c') {
        spec.comps[s.second].importRef = reference;
        return "component #" + std::to_string(s.second);
    }
    spec.units[s.second].importRef = reference;
    return "units #" + std::to_string(s.second);
}

// ------------------------------------------------------------------------------------------------ API-level permutation

namespace {

// Fisher-Yates through "take child j of the not yet placed prefix and append it". Returns true when the order changed.
bool shuffleBy(size_t n, Src &src, const std::function<void(size_t)> &moveToEnd)
{
    if (n < 2 || !src.flip(60)) {
        return false;
    }
    std::vector<size_t> order(n);
    for (size_t i = 0; i < n; ++i) {
        order[i] = i;
    }
    std::vector<size_t> result;
    for (size_t i = 0; i < n; ++i) {
        size_t j = src.below(n - i);
        moveToEnd(j);
        result.push_back(order[j]);
        order.erase(order.begin() + static_cast<long>(j));
    }
    for (size_t i = 0; i < n; ++i) {
        if (result[i] != i) {
            return true;
        }
    }
    return false;
}

} // namespace

int permuteChildren(const Built &b, const ModelSpec &spec, const Loc &top, Src &src, int *inside)
{
    const Scope sc = scopeOf(spec, top);
    int changed = 0;
    int in = 0;
    auto note = [&](bool didChange, bool isInside) {
        if (didChange) {
            ++changed;
            if (isInside) {
                ++in;
            }
        }
    };
    ModelPtr model = b.model;
    note(shuffleBy(model->unitsCount(), src, [&](size_t j) {
             auto u = model->takeUnits(j);
             model->addUnits(u);
         }),
         sc.model);
    note(shuffleBy(model->componentCount(), src, [&](size_t j) {
             auto c = model->takeComponent(j);
             model->addComponent(c);
         }),
         sc.model);
    for (size_t ci = 0; ci < b.comps.size(); ++ci) {
        ComponentPtr comp = b.comps[ci];
        const bool isIn = sc.comps.count(static_cast<int>(ci)) != 0;
        note(shuffleBy(comp->variableCount(), src, [&](size_t j) {
                 auto v = comp->takeVariable(j);
                 comp->addVariable(v);
             }),
             isIn);
        note(shuffleBy(comp->resetCount(), src, [&](size_t j) {
                 auto r = comp->takeReset(j);
                 comp->addReset(r);
             }),
             isIn);
        note(shuffleBy(comp->componentCount(), src, [&](size_t j) {
                 auto c = comp->takeComponent(j);
                 comp->addComponent(c);
             }),
             isIn);
    }
    for (size_t ui = 0; ui < b.units.size(); ++ui) {
        UnitsPtr u = b.units[ui];
        note(shuffleBy(u->unitCount(), src, [&](size_t j) {
                 std::string ref, prefix, id;
                 double e = 1.0, m = 1.0;
                 u->unitAttributes(j, ref, prefix, e, m, id);
                 u->removeUnit(j);
                 u->addUnit(ref, prefix, e, m, id);
             }),
             sc.units.count(static_cast<int>(ui)) != 0);
    }
    if (inside != nullptr) {
        *inside = in;
    }
    return changed;
}

} // namespace c10
} // namespace vp

// Canonical text of an AnalyserModel through public accessors only.
#include "c12_amdump.h"

#include <map>

using namespace libcellml;

namespace vp {

namespace {

std::string c12VarKey(const VariablePtr &v)
{
    if (v == nullptr) {
        return "<none>";
    }
    auto comp = std::dynamic_pointer_cast<Component>(v->parent());
    return (comp != nullptr ? comp->name() : std::string("<orphan>")) + ":" + v->name();
}

void c12Ast(const AnalyserEquationAstPtr &a, std::string &out, int depth)
{
    if (a == nullptr) {
        out += "_";
        return;
    }
    if (depth > 400) {
        out += "<deep>";
        return;
    }
    out += "(" + AnalyserEquationAst::typeAsString(a->type());
    if (!a->value().empty()) {
        out += " '" + a->value() + "'";
    }
    if (a->variable() != nullptr) {
        out += " " + c12VarKey(a->variable());
    }
    auto l = a->leftChild();
    auto r = a->rightChild();
    if (l != nullptr || r != nullptr) {
        out += " ";
        c12Ast(l, out, depth + 1);
        out += " ";
        c12Ast(r, out, depth + 1);
    }
    out += ")";
}

struct EqIndex
{
    std::map<AnalyserEquation *, size_t> pos;
    std::string of(const AnalyserEquationPtr &e) const
    {
        if (e == nullptr) {
            return "null";
        }
        auto it = pos.find(e.get());
        return it != pos.end() ? std::to_string(it->second) : std::string("?");
    }
};

std::string c12AVar(const AnalyserVariablePtr &v, const EqIndex &ix)
{
    if (v == nullptr) {
        return "<null analyser variable>";
    }
    std::string s = AnalyserVariable::typeAsString(v->type()) + " #" + std::to_string(v->index()) + " " + c12VarKey(v->variable()) + " init=" + c12VarKey(v->initialisingVariable()) + " eqs=[";
    for (size_t i = 0; i < v->equationCount(); ++i) {
        s += (i != 0 ? "," : "") + ix.of(v->equation(i));
    }
    return s + "]";
}

} // namespace

std::string dumpAnalyserModel(const AnalyserModelPtr &am)
{
    if (am == nullptr) {
        return "<null analyser model>\n";
    }
    EqIndex ix;
    for (size_t i = 0; i < am->equationCount(); ++i) {
        auto e = am->equation(i);
        if (e != nullptr) {
            ix.pos[e.get()] = i;
        }
    }
    std::string s = "analyser-model type=" + AnalyserModel::typeAsString(am->type()) + " valid=" + (am->isValid() ? "1" : "0") + " externals=" + (am->hasExternalVariables() ? "1" : "0") + "\n";
    s += " voi " + (am->voi() != nullptr ? c12AVar(am->voi(), ix) : std::string("<none>")) + "\n";
    s += " states=" + std::to_string(am->stateCount()) + " variables=" + std::to_string(am->variableCount()) + " equations=" + std::to_string(am->equationCount()) + "\n";
    for (size_t i = 0; i < am->stateCount(); ++i) {
        s += " state " + c12AVar(am->state(i), ix) + "\n";
    }
    for (size_t i = 0; i < am->variableCount(); ++i) {
        s += " variable " + c12AVar(am->variable(i), ix) + "\n";
    }
    for (size_t i = 0; i < am->equationCount(); ++i) {
        auto e = am->equation(i);
        if (e == nullptr) {
            s += " equation " + std::to_string(i) + " <null>\n";
            continue;
        }
        s += " equation " + std::to_string(i) + " " + AnalyserEquation::typeAsString(e->type()) + " rate-based=" + (e->isStateRateBased() ? "1" : "0");
        s += " nla=" + (e->nlaSystemIndex() == static_cast<size_t>(-1) ? std::string("-") : std::to_string(e->nlaSystemIndex())) + " deps=[";
        for (size_t k = 0; k < e->dependencyCount(); ++k) {
            s += (k != 0 ? "," : "") + ix.of(e->dependency(k));
        }
        s += "] siblings=[";
        for (size_t k = 0; k < e->nlaSiblingCount(); ++k) {
            s += (k != 0 ? "," : "") + ix.of(e->nlaSibling(k));
        }
        s += "] computes=[";
        for (size_t k = 0; k < e->variableCount(); ++k) {
            auto v = e->variable(k);
            s += (k != 0 ? "," : "") + (v != nullptr ? AnalyserVariable::typeAsString(v->type()) + "#" + std::to_string(v->index()) + ":" + c12VarKey(v->variable()) : std::string("null"));
        }
        s += "] ast=";
        c12Ast(e->ast(), s, 0);
        s += "\n";
    }
    s += " need=";
    const bool needs[] = {am->needEqFunction(), am->needNeqFunction(), am->needLtFunction(), am->needLeqFunction(), am->needGtFunction(), am->needGeqFunction(), am->needAndFunction(), am->needOrFunction(),
                          am->needXorFunction(), am->needNotFunction(), am->needMinFunction(), am->needMaxFunction(), am->needSecFunction(), am->needCscFunction(), am->needCotFunction(), am->needSechFunction(),
                          am->needCschFunction(), am->needCothFunction(), am->needAsecFunction(), am->needAcscFunction(), am->needAcotFunction(), am->needAsechFunction(), am->needAcschFunction(), am->needAcothFunction()};
    for (bool b : needs) {
        s += b ? '1' : '0';
    }
    s += "\n";
    return s;
}

} // namespace vp

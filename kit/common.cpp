// Helpers shared by all drivers: JSON escaping, known-findings table, process isolation.
#include <algorithm>
#include <cstdio>
#include <cstdlib>
#include <cstring>
#include <fstream>
#include <iostream>
#include <sys/wait.h>
#include <unistd.h>
#include <csignal>

#include "prop.h"

namespace vp {

std::string jsonEscape(const std::string &s)
{
    std::string o;
    for (unsigned char c : s) {
        switch (c) {
        case '"': o += "\\\""; break;
        case '\\': o += "\\\\"; break;
        case '\n': o += "\\n"; break;
        case '\r': o += "\\r"; break;
        case '\t': o += "\\t"; break;
        default:
            if (c < 0x20) {
                char b[8];
                snprintf(b, sizeof b, "\\u%04x", c);
                o += b;
            } else {
                o += static_cast<char>(c);
            }
        }
    }
    // Make sure the result is valid UTF-8 for JSON consumers: replace invalid sequences by '?'.
    std::string v;
    size_t i = 0;
    while (i < o.size()) {
        unsigned char c = static_cast<unsigned char>(o[i]);
        size_t n = c < 0x80 ? 1 : (c >> 5) == 6 ? 2 : (c >> 4) == 14 ? 3 : (c >> 3) == 30 ? 4 : 0;
        bool good = n > 0 && i + n <= o.size();
        for (size_t k = 1; good && k < n; ++k) {
            good = (static_cast<unsigned char>(o[i + k]) >> 6) == 2;
        }
        if (good) {
            v.append(o, i, n);
            i += n;
        } else {
            v += '?';
            ++i;
        }
    }
    return v;
}

bool globMatch(const std::string &p, const std::string &t)
{
    // '*' matches any run of characters; everything else is literal.
    size_t pi = 0, ti = 0, star = std::string::npos, mark = 0;
    while (ti < t.size()) {
        if (pi < p.size() && p[pi] == '*') {
            star = pi++;
            mark = ti;
        } else if (pi < p.size() && p[pi] == t[ti]) {
            ++pi;
            ++ti;
        } else if (star != std::string::npos) {
            pi = star + 1;
            ti = ++mark;
        } else {
            return false;
        }
    }
    while (pi < p.size() && p[pi] == '*') {
        ++pi;
    }
    return pi == p.size();
}

struct Known
{
    std::string property, sig, what;
};
static std::vector<Known> gKnown;

void loadKnown()
{
    const char *p = getenv("VERIF_KNOWN");
    if (p == nullptr) {
        return;
    }
    std::ifstream in(p);
    std::string line;
    while (std::getline(in, line)) {
        size_t a = line.find('\t');
        size_t b = a == std::string::npos ? a : line.find('\t', a + 1);
        if (b == std::string::npos) {
            continue;
        }
        gKnown.push_back({line.substr(0, a), line.substr(a + 1, b - a - 1), line.substr(b + 1)});
    }
}

int knownFindingIndex(const std::string &propertyId, const std::string &sig)
{
    for (size_t i = 0; i < gKnown.size(); ++i) {
        if (gKnown[i].property == propertyId && globMatch(gKnown[i].sig, sig)) {
            return static_cast<int>(i);
        }
    }
    return -1;
}

std::string knownFindingSig(int idx)
{
    return gKnown[static_cast<size_t>(idx)].sig;
}

std::string knownFindingWhat(int idx)
{
    return gKnown[static_cast<size_t>(idx)].what;
}

int runIsolated(void (*fn)(void *), void *arg, int timeoutS, std::string *diag)
{
    int pfd[2];
    if (pipe(pfd) != 0) {
        return -1;
    }
    fflush(nullptr);
    pid_t pid = fork();
    if (pid == 0) {
        close(pfd[0]);
        dup2(pfd[1], 2);
        close(pfd[1]);
        if (timeoutS > 0) {
            signal(SIGALRM, SIG_DFL);
            alarm(static_cast<unsigned>(timeoutS));
        }
        fn(arg);
        fflush(nullptr);
        _exit(0);
    }
    close(pfd[1]);
    std::string err;
    char buf[4096];
    ssize_t n;
    while ((n = read(pfd[0], buf, sizeof buf)) > 0) {
        if (err.size() < (1u << 20)) {
            err.append(buf, static_cast<size_t>(n));
        }
    }
    close(pfd[0]);
    int st = 0;
    waitpid(pid, &st, 0);
    if (diag != nullptr) {
        *diag = err;
    }
    if (WIFEXITED(st)) {
        return WEXITSTATUS(st);
    }
    if (WIFSIGNALED(st)) {
        return 1000 + WTERMSIG(st);
    }
    return -1;
}

} // namespace vp


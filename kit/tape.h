// Choice tapes: one generator code base, several drivers (rapidcheck, exhaustive, libFuzzer, replay).
// Every random decision of a generator goes through Src::below(); value 0 is always the simplest choice.
#pragma once
#include <cstdint>
#include <cstddef>
#include <string>
#include <vector>

namespace vp {

struct Src
{
    virtual ~Src() = default;
    // A value in [0, n). n <= 1 consumes nothing.
    uint64_t below(uint64_t n)
    {
        if (n <= 1) {
            return 0;
        }
        return raw(n);
    }
    // true with probability pct/100; the simplest choice (0) is false unless pct >= 100.
    bool flip(unsigned pct) { return pct >= 100 ? true : (pct == 0 ? false : below(100) >= 100 - pct); }
    int range(int lo, int hi) { return lo + static_cast<int>(below(static_cast<uint64_t>(hi - lo + 1))); }
    template<class T>
    const T &pick(const std::vector<T> &v) { return v[below(v.size())]; }
    virtual bool exhausted() const { return false; } // true when reading past the recorded tape
protected:
    virtual uint64_t raw(uint64_t n) = 0;
};

// The bijection on 32-bit values (0 -> 0) TapeSrc applies to tape entries, and its inverse (used to write tapes
// that decode to given choice indices). Frozen: saved replay tapes depend on it.
inline uint32_t tapeMix(uint32_t x)
{
    x ^= x >> 16;
    x *= 0x7feb352dU;
    x ^= x >> 15;
    x *= 0x846ca68bU;
    x ^= x >> 16;
    return x;
}
inline uint32_t tapeUnmix(uint32_t x)
{
    x ^= x >> 16;
    x *= 0x43021123U;
    x ^= x >> 15 ^ x >> 30;
    x *= 0x1d69e2a5U;
    x ^= x >> 16;
    return x;
}

// Reads a recorded tape; reads past the end return 0 (the simplest choice).
struct TapeSrc: Src
{
    std::vector<uint32_t> tape;
    size_t pos = 0;
    size_t reads = 0;
    explicit TapeSrc(std::vector<uint32_t> t)
        : tape(std::move(t))
    {
    }
    bool exhausted() const override { return pos >= tape.size(); }
protected:
    uint64_t raw(uint64_t n) override
    {
        ++reads;
        uint32_t v = pos < tape.size() ? tape[pos] : 0;
        ++pos;
        // rapidcheck's integers are far from uniform modulo small radices (many tiny values and all-ones patterns):
        // mix every non-zero value so that residues are uniform; 0 stays 0, the simplest choice, so shrinking still works.
        if (v != 0) {
            return tapeMix(v) % n;
        }
        return 0;
    }
};

// libFuzzer inputs decoded as a choice tape: 1, 2 or 4 bytes per choice depending on the radix.
struct ByteSrc: Src
{
    const uint8_t *d;
    size_t n, pos = 0;
    ByteSrc(const uint8_t *data, size_t size)
        : d(data)
        , n(size)
    {
    }
    bool exhausted() const override { return pos >= n; }
protected:
    uint64_t raw(uint64_t radix) override
    {
        size_t w = radix <= 256 ? 1 : (radix <= 65536 ? 2 : 4);
        uint64_t v = 0;
        for (size_t i = 0; i < w; ++i) {
            v |= static_cast<uint64_t>(pos < n ? d[pos] : 0) << (8 * i);
            ++pos;
        }
        return v % radix;
    }
};

// Depth-first enumeration of every choice sequence of a bounded generator.
// Usage: ExhaustiveSrc s; do { s.rewind(); run(s); } while (s.advance());
struct ExhaustiveSrc: Src
{
    struct Choice
    {
        uint64_t v;
        uint64_t n;
    };
    std::vector<Choice> path;
    size_t pos = 0;
    void rewind() { pos = 0; }
    bool advance()
    {
        path.resize(pos); // drop choices not consumed by the last run
        while (!path.empty()) {
            if (path.back().v + 1 < path.back().n) {
                ++path.back().v;
                return true;
            }
            path.pop_back();
        }
        return false;
    }
    std::vector<uint32_t> asTape() const
    {
        std::vector<uint32_t> t;
        for (size_t i = 0; i < pos && i < path.size(); ++i) {
            t.push_back(tapeUnmix(static_cast<uint32_t>(path[i].v))); // so that TapeSrc decodes the same choices
        }
        return t;
    }
protected:
    uint64_t raw(uint64_t n) override
    {
        if (pos < path.size()) {
            // The generator must be deterministic given its earlier choices.
            path[pos].n = n;
            if (path[pos].v >= n) {
                path[pos].v = n - 1;
            }
            return path[pos++].v;
        }
        path.push_back({0, n});
        ++pos;
        return 0;
    }
};

} // namespace vp

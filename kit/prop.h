// Interface between a property predicate (props/Cxx.cpp) and the drivers (kit/main.cpp, kit/fuzz_main.cpp).
#pragma once
#include <cstdint>
#include <map>
#include <set>
#include <sstream>
#include <string>
#include <vector>

#include "tape.h"

namespace vp {

// Filled by the predicate for one generated case.
struct Case
{
    bool ok = true;
    bool nontrivial = false;
    uint64_t hash = 0; // content hash, for distinctness
    std::set<std::string> classes; // class labels (histogram in the evidence)
    std::string text; // human readable form of the case (sample / replay comment)
    std::string sig; // failure signature: "<oracle>|<localisation>"
    std::string msg; // failure detail
    std::map<std::string, long> counters; // e.g. excluded-by-construction counts, per-case numbers
    size_t weight = 0; // "size" used to keep the largest sample
    // Further failures of the same case (enumerating harnesses report every failing class, not only the first):
    // each is matched against the known findings by the driver; the first unlisted one becomes the case's failure.
    std::vector<std::pair<std::string, std::string>> alsoFailed;

    void fail(const std::string &signature, const std::string &message)
    {
        if (ok) {
            ok = false;
            sig = signature;
            msg = message;
        }
    }
    void cls(const std::string &c) { classes.insert(c); }
    void count(const std::string &k, long n = 1) { counters[k] += n; }
};

struct Property
{
    const char *id; // "C02"
    const char *level; // evidence level: exploration | fault_enumeration | translation_validation
    const char *rule; // how cases are generated and what makes one non-trivial
    void (*run)(Src &, Case &); // the predicate
    // Optional: bounded generator for the exhaustive driver (may be the same as run with a bound set by setBound).
    void (*setMode)(const std::string &mode, long bound) = nullptr;
    std::vector<std::string> assumptions;
    // Optional per-process hooks.
    void (*init)() = nullptr;
    void (*extraEvidence)(std::ostream &jsonFields) = nullptr; // emits ,"key":value fragments
    // Optional: byte-level entry (libFuzzer targets whose input is a document rather than a choice tape).
    void (*runBytes)(const uint8_t *data, size_t size, Case &c) = nullptr;
};

extern Property property; // defined by each props/Cxx.cpp

// FNV-1a
inline uint64_t hashStr(const std::string &s, uint64_t h = 1469598103934665603ULL)
{
    for (unsigned char c : s) {
        h ^= c;
        h *= 1099511628211ULL;
    }
    return h;
}

std::string jsonEscape(const std::string &s);

// Known findings (loaded once by the driver from $VERIF_HOME/known_findings.json).
// Returns the index of the matching "known" entry for (property id, signature), or -1.
int knownFindingIndex(const std::string &propertyId, const std::string &sig);
std::string knownFindingWhat(int idx);
std::string knownFindingSig(int idx);
void loadKnown(); // reads $VERIF_KNOWN (tab separated: property, signature glob, what)
bool globMatch(const std::string &pattern, const std::string &text);

// Case isolation helper: run fn in a forked child; returns 0 when the child exited normally with status 0,
// otherwise a non-zero code and the captured stderr tail in *diag. timeoutS <= 0 means no limit.
int runIsolated(void (*fn)(void *), void *arg, int timeoutS, std::string *diag);

} // namespace vp

#define VP_STR2(x) #x
#define VP_STR(x) VP_STR2(x)
// Soft assertion inside a predicate: records a failure with signature and returns from the predicate.
#define VP_CHECK(c, cond, signature, message) \
    do { \
        if (!(cond)) { \
            std::ostringstream vp_oss__; \
            vp_oss__ << message; \
            (c).fail((signature), vp_oss__.str() + " [" #cond " @" __FILE__ ":" VP_STR(__LINE__) "]"); \
            return; \
        } \
    } while (0)

// Glue between a ground-truth model, the library's AnalyserModel and the code runner (shared by C03, C06, C17, C20).
#pragma once
#include <libcellml>

#include <string>
#include <vector>

#include "gt.h"
#include "runner.h"

namespace vp {

struct GtMapping
{
    libcellml::AnalyserModelPtr am;
    bool hasVoi = false;
    int voiCls = -1, voiInst = -1;
    std::vector<std::pair<int, int>> states; // (class, instance) per state index
    std::vector<std::pair<int, int>> vars; // (class, instance) per variable index; (-1,-1) = unknown to the ground truth
    std::string problem; // non-empty when the analyser model could not be related to the ground truth
};

// Relates every analyser variable (through AnalyserVariable::variable(): owning component name + variable name) to an
// instance of the ground truth. Returns false (mapping.problem set) when something does not correspond.
bool mapAnalyserModel(const libcellml::AnalyserModelPtr &am, const GtModel &gt, GtMapping &mapping);

RunPlan makeRunPlan(const GtModel &gt, const GtMapping &mapping);

// Expected value of a state's rate in the units of the primary state and primary voi variables.
double expectedRate(const GtModel &gt, const GtMapping &mapping, size_t stateIndex, int point);

// Compares the arrays a run produced with the ground truth. Returns "" when everything agrees; otherwise the first
// line is the signature tail ("<stage>|<role>[|scaled]") and the rest the detail.
std::string compareRunWithTruth(const GtModel &gt, const GtMapping &mapping, const RunResult &r, double relTol, long *comparisons);

// Compares two runs (C against Python) entry by entry.
std::string compareRuns(const RunResult &a, const RunResult &b, double relTol, long *comparisons);

bool closeEnough(double a, double b, double relTol);

} // namespace vp

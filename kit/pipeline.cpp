#include "pipeline.h"

#include <filesystem>
#include <cstdlib>
#include <cstdio>

#include <libcellml>

#include <libxml/parser.h>

#include <functional>
#include <set>

#include "spec.h"

using namespace libcellml;

namespace vp {

namespace {

bool monitor(Case &c, const LoggerPtr &lg, const char *service)
{
    std::string r = checkLogger(lg);
    if (!r.empty()) {
        c.fail(std::string("C15.monitor|") + service + "|" + r.substr(0, r.find('|')), r);
        return false;
    }
    return true;
}

void collectImportUrls(const ModelPtr &m, std::set<std::string> &urls)
{
    for (size_t i = 0; i < m->unitsCount(); ++i) {
        auto u = m->units(i);
        if (u->isImport() && u->importSource() != nullptr) {
            urls.insert(u->importSource()->url());
        }
    }
    std::function<void(const ComponentPtr &)> walk = [&](const ComponentPtr &comp) {
        if (comp->isImport() && comp->importSource() != nullptr) {
            urls.insert(comp->importSource()->url());
        }
        for (size_t i = 0; i < comp->componentCount(); ++i) {
            walk(comp->component(i));
        }
    };
    for (size_t i = 0; i < m->componentCount(); ++i) {
        walk(m->component(i));
    }
}

void queries(const ModelPtr &m)
{
    volatile bool sink = false;
    sink = m->isDefined();
    sink = m->hasImports();
    sink = m->hasUnresolvedImports();
    sink = m->hasUnlinkedUnits();
    for (size_t i = 0; i < m->unitsCount(); ++i) {
        auto u = m->units(i);
        sink = u->isDefined();
        sink = u->isBaseUnit();
        sink = u->requiresImports();
        sink = u->isResolved();
    }
    std::function<void(const ComponentPtr &, int)> walk = [&](const ComponentPtr &comp, int depth) {
        sink = comp->isDefined();
        sink = comp->requiresImports();
        sink = comp->isResolved();
        if (depth > 200) {
            return;
        }
        for (size_t i = 0; i < comp->componentCount(); ++i) {
            walk(comp->component(i), depth + 1);
        }
    };
    for (size_t i = 0; i < m->componentCount(); ++i) {
        walk(m->component(i), 0);
    }
    (void)sink;
}

void analyseAndGenerate(const ModelPtr &m, Case &c, const char *which)
{
    auto analyser = Analyser::create();
    analyser->analyseModel(m);
    if (!monitor(c, analyser, "Analyser")) {
        return;
    }
    auto am = analyser->model();
    bool valid = am != nullptr && am->isValid();
    if (am != nullptr && !valid && am->type() != AnalyserModel::Type::UNKNOWN && analyser->issueCount() == 0) {
        c.fail("C15.unexplained-failure|Analyser", std::string("analyser model of type ") + AnalyserModel::typeAsString(am->type()) + " without any issue (" + which + ")");
        return;
    }
    for (auto profileType : {GeneratorProfile::Profile::C, GeneratorProfile::Profile::PYTHON}) {
        auto gen = Generator::create();
        gen->setProfile(GeneratorProfile::create(profileType));
        gen->setModel(am);
        std::string iface = gen->interfaceCode();
        std::string impl = gen->implementationCode();
        if (!valid && (!iface.empty() || !impl.empty())) {
            c.fail("C01.code-for-invalid-model", std::string("generator produced code for a non-valid analyser model (") + which + ")");
            return;
        }
        if (valid) {
            c.cls("stage:code-generated");
            c.counters["_deep"] = 1;
        }
    }
    if (valid) {
        c.cls("stage:analysed-valid");
    }
}

} // namespace

void runPipeline(const std::string &doc, const PipelineCfg &cfg, Case &c)
{
    xmlKeepBlanksDefault(1); // hidden-state reset between cases
    c.cls(cfg.strict ? "strict" : "permissive");
    auto parser = Parser::create(cfg.strict);
    ModelPtr model = parser->parseModel(doc);
    if (!monitor(c, parser, "Parser")) {
        return;
    }
    if (model == nullptr) {
        c.cls("stage:null-model");
        if (parser->issueCount() == 0) {
            c.fail("C15.unexplained-failure|Parser::parseModel", "parseModel returned null without any issue");
        }
        return;
    }
    bool xmlError = false;
    for (size_t i = 0; i < parser->issueCount(); ++i) {
        xmlError = xmlError || parser->issue(i)->referenceRule() == Issue::ReferenceRule::XML;
    }
    if (model->componentCount() == 0 && model->unitsCount() == 0) {
        c.cls(xmlError ? "stage:xml-error" : "stage:not-a-model-or-empty");
    } else {
        c.cls("stage:parsed");
        c.nontrivial = true;
    }
    if (doc.find("cellml/1.1#") != std::string::npos || doc.find("cellml/1.0#") != std::string::npos) {
        c.cls("vocabulary:1.x");
    } else if (doc.find("cellml/2.0#") != std::string::npos) {
        c.cls("vocabulary:2.0");
    } else {
        c.cls("vocabulary:foreign");
    }

    auto validator = Validator::create();
    validator->validateModel(model);
    if (!monitor(c, validator, "Validator")) {
        return;
    }
    if (validator->errorCount() == 0) {
        c.cls("stage:validated-clean");
    }

    auto printer = Printer::create();
    std::string printed = printer->printModel(model);
    if (!monitor(c, printer, "Printer")) {
        return;
    }
    std::string printedIds = printer->printModel(model, true);
    if (!printed.empty()) {
        auto p2 = Parser::create(true);
        ModelPtr again = p2->parseModel(printed);
        if (!monitor(c, p2, "Parser")) {
            return;
        }
        (void)again;
    }
    queries(model);

    // import resolution with an empty library; every file open fails in the non-existent directory
    {
        auto importer = Importer::create(cfg.strict);
        ModelPtr m1 = model->clone();
        bool ok = importer->resolveImports(m1, "/nonexistent-vp-dir/sub/");
        if (!monitor(c, importer, "Importer")) {
            return;
        }
        if (!ok && importer->issueCount() == 0) {
            c.fail("C15.unexplained-failure|Importer::resolveImports", "resolveImports returned false without any issue");
            return;
        }
        if (!cfg.skipFlatten) {
            ModelPtr flat = importer->flattenModel(m1);
            if (!monitor(c, importer, "Importer")) {
                return;
            }
            if (flat == nullptr && importer->issueCount() == 0) {
                c.fail("C15.unexplained-failure|Importer::flattenModel", "flattenModel returned null without any issue");
                return;
            }
        }
    }
    // import resolution against an in-memory library registered under the hrefs the document uses
    ModelPtr flatForAnalysis;
    if (cfg.selfLibrary || !cfg.extraDoc.empty()) {
        std::set<std::string> urls;
        collectImportUrls(model, urls);
        if (!urls.empty()) {
            c.cls("imports-resolved-in-memory");
            auto importer = Importer::create(cfg.strict);
            size_t k = 0;
            for (const auto &u : urls) {
                auto lp = Parser::create(cfg.strict);
                const std::string &text = (!cfg.extraDoc.empty() && (k % 2 == 0 || !cfg.selfLibrary)) ? cfg.extraDoc : doc;
                ModelPtr lib = lp->parseModel(text);
                if (lib != nullptr) {
                    importer->addModel(lib, u);
                }
                ++k;
            }
            ModelPtr m2 = model->clone();
            bool ok = importer->resolveImports(m2, "/nonexistent-vp-dir/");
            if (!monitor(c, importer, "Importer")) {
                return;
            }
            if (!ok && importer->issueCount() == 0) {
                c.fail("C15.unexplained-failure|Importer::resolveImports", "resolveImports returned false without any issue (library)");
                return;
            }
            if (ok) {
                c.cls("stage:resolved");
            }
            queries(m2);
            auto v2 = Validator::create();
            v2->validateModel(m2);
            if (!monitor(c, v2, "Validator")) {
                return;
            }
            if (!cfg.skipFlatten) {
                ModelPtr flat = importer->flattenModel(m2);
                if (!monitor(c, importer, "Importer")) {
                    return;
                }
                if (flat == nullptr && importer->issueCount() == 0) {
                    c.fail("C15.unexplained-failure|Importer::flattenModel", "flattenModel returned null without any issue (library)");
                    return;
                }
                if (flat != nullptr) {
                    c.cls("stage:flattened");
                    flatForAnalysis = flat;
                }
            }
        }
    }
    // the same library as files on disk: the importer opens, parses (strict or permissive) and reports on them itself
    if (cfg.libraryFiles && (cfg.selfLibrary || !cfg.extraDoc.empty())) {
        std::set<std::string> urls;
        collectImportUrls(model, urls);
        namespace fs = std::filesystem;
        const char *runDir = getenv("VERIF_RUN_DIR");
        std::string templ = std::string(runDir != nullptr ? runDir : "/tmp") + "/c01lib-XXXXXX";
        std::vector<char> buf(templ.begin(), templ.end());
        buf.push_back('\0');
        if (!urls.empty() && mkdtemp(buf.data()) != nullptr) {
            const fs::path scratch(buf.data());
            const fs::path base = scratch / "base";
            std::error_code ec;
            fs::create_directories(base, ec);
            size_t k = 0, written = 0;
            for (const auto &u : urls) {
                ++k;
                if (u.empty() || u.size() > 200 || u[0] == '/' || u.find_first_not_of("abcdefghijklmnopqrstuvwxyzABCDEFGHIJKLMNOPQRSTUVWXYZ0123456789_.-/") != std::string::npos) {
                    continue; // only plain relative names are written; everything else stays a missing file
                }
                fs::path target = (base / u).lexically_normal();
                if (target.string().compare(0, scratch.string().size() + 1, scratch.string() + "/") != 0) {
                    continue;
                }
                fs::create_directories(target.parent_path(), ec);
                const std::string &text = (!cfg.extraDoc.empty() && ((k - 1) % 2 == 0 || !cfg.selfLibrary)) ? cfg.extraDoc : doc;
                FILE *f = fopen(target.c_str(), "w");
                if (f != nullptr) {
                    fwrite(text.data(), 1, text.size(), f);
                    fclose(f);
                    ++written;
                }
            }
            if (written > 0) {
                c.cls("imports-resolved-from-files");
                auto importer = Importer::create(cfg.strict);
                ModelPtr m3 = model->clone();
                bool ok = importer->resolveImports(m3, base.string() + "/");
                bool fine = monitor(c, importer, "Importer");
                if (fine && !ok && importer->issueCount() == 0) {
                    c.fail("C15.unexplained-failure|Importer::resolveImports", "resolveImports returned false without any issue (files)");
                    fine = false;
                }
                if (fine && ok) {
                    c.cls("stage:resolved-from-files");
                }
                if (fine && !cfg.skipFlatten) {
                    ModelPtr flat = importer->flattenModel(m3);
                    fine = monitor(c, importer, "Importer");
                    if (fine && flat == nullptr && importer->issueCount() == 0) {
                        c.fail("C15.unexplained-failure|Importer::flattenModel", "flattenModel returned null without any issue (files)");
                        fine = false;
                    }
                }
                if (!fine) {
                    fs::remove_all(scratch, ec);
                    return;
                }
            }
            fs::remove_all(scratch, ec);
        }
    }
    if (!cfg.skipAnalysis) {
        analyseAndGenerate(model, c, "original");
        if (c.ok && flatForAnalysis != nullptr) {
            analyseAndGenerate(flatForAnalysis, c, "flattened");
        }
    }
}

} // namespace vp

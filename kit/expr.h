// Expression trees over the MathML subset CellML 2.0 supports, with an independent MathML writer and an
// independent reference evaluator (double arithmetic, MathML semantics).
#pragma once
#include <cmath>
#include <functional>
#include <map>
#include <memory>
#include <string>
#include <vector>

#include "tape.h"

namespace vp {

enum class Op
{
    // leaves
    CI,
    CN, // plain number
    CNE, // e-notation number: mantissa <sep/> exponent
    TRUE_,
    FALSE_,
    E,
    PI,
    INF,
    NAN_,
    // relational / logical
    EQ,
    NEQ,
    LT,
    LEQ,
    GT,
    GEQ,
    AND,
    OR,
    XOR,
    NOT,
    // arithmetic
    PLUS,
    MINUS, // unary or binary
    TIMES,
    DIVIDE,
    POWER,
    ROOT, // kids: [x] or [degree, x]
    ABS,
    EXP,
    LN,
    LOG, // kids: [x] or [base, x]
    CEILING,
    FLOOR,
    MIN,
    MAX,
    REM,
    // trig
    SIN,
    COS,
    TAN,
    SEC,
    CSC,
    COT,
    SINH,
    COSH,
    TANH,
    SECH,
    CSCH,
    COTH,
    ASIN,
    ACOS,
    ATAN,
    ASEC,
    ACSC,
    ACOT,
    ASINH,
    ACOSH,
    ATANH,
    ASECH,
    ACSCH,
    ACOTH,
    // piecewise: kids = [v1, c1, v2, c2, ..., (otherwise)] ; hasOtherwise tells whether the last kid is the otherwise value
    PIECEWISE,
    // derivative: kids = [CI bvar, CI x]
    DIFF,
};

struct Expr
{
    Op op = Op::CN;
    std::vector<Expr> kids;
    std::string name; // CI: variable name
    double num = 0.0; // CN: value; CNE: mantissa
    int exp10 = 0; // CNE: exponent
    std::string text; // CN/CNE: exact mantissa text written to the document (if empty, derived from num)
    std::string units; // CN/CNE: cellml:units
    bool hasOtherwise = false;

    static Expr ci(const std::string &n)
    {
        Expr e;
        e.op = Op::CI;
        e.name = n;
        return e;
    }
    static Expr cn(double v, const std::string &u, const std::string &t = "")
    {
        Expr e;
        e.op = Op::CN;
        e.num = v;
        e.units = u;
        e.text = t;
        return e;
    }
    static Expr make(Op o, std::vector<Expr> k)
    {
        Expr e;
        e.op = o;
        e.kids = std::move(k);
        return e;
    }
};

const char *opName(Op op); // MathML element name
bool isLeaf(Op op);
bool isTrig(Op op);
bool isRelational(Op op);
bool isLogical(Op op);

std::string numText(double v); // shortest decimal text (<= 17 digits) that is a CellML basic real and reads back as v
std::string exprToMathml(const Expr &e, const std::string &cellmlPrefix = "cellml"); // element content (no <math> wrapper)
// <math xmlns=... xmlns:cellml=...> eq(lhs, rhs) ... </math>
std::string mathBlock(const std::vector<std::pair<Expr, Expr>> &equations, int layout = 0);
std::string mathBlockRaw(const std::string &content, int layout = 0);
std::string exprToSexp(const Expr &e); // compact human readable form

// Reference evaluation. margin (if not null) receives the smallest "distance from trouble" met while evaluating:
// distance to poles / branch points / integer boundaries for floor, ceiling, rem / equality for relational ops,
// and a penalty for huge or tiny magnitudes. Values >= ~1e-3 mean all implementations must agree.
struct EvalEnv
{
    std::function<double(const std::string &)> var; // value of a variable by name
    std::function<double(const std::string &, const std::string &)> diff; // value of d(x)/d(bvar)
};
double evalExpr(const Expr &e, const EvalEnv &env, double *margin = nullptr);

void collectVars(const Expr &e, std::vector<std::string> &out);
size_t exprSize(const Expr &e);

} // namespace vp

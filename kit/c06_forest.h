// C06: import forests made by splitting one ground-truth model. The unsplit model (after an optional duplication of a
// component subtree and an enrichment of its units) is the reference for the flattened model ("spec-level inlining"):
// its truth (roles, values) is known by construction. Components (with their encapsulated children and internal
// connections) and units are then moved into 1-5 library models and replaced by import elements.
#pragma once
#include <libcellml>

#include <map>
#include <set>
#include <string>
#include <vector>

#include "gt.h"
#include "spec.h"
#include "tape.h"

namespace vp {

struct C06Model
{
    ModelSpec spec;
    std::vector<std::vector<int>> refs; // per component element: the reference components it stands for (empty = junk)
    std::vector<int> importTarget; // per ImportSpec: index of the model it points at
    std::string url; // path relative to the run directory ("main.cellml", "lib1.cellml", "sub/lib2.cellml")
    int depth = 0; // longest import path from the main model
};

struct C06Options
{
    bool allowIds = false; // give library components XML ids (flattening one twice duplicates them)
    int maxOps = 5;
    unsigned keptChildrenPct = 50; // how often children of a cut root may stay in the importing model, below the import element
    bool libsParsed = false; // the library models will be parsed from files (import elements then have no variables of their own)
    unsigned chainGapPct = 50; // how often each of the shapes behind the (repaired) findings of notes/C06.md is allowed in a case
};

struct C06Forest
{
    GtModel ref; // the unsplit reference model and its truth
    std::vector<int> canon; // per reference component: the component it is a copy of (itself when original)
    std::vector<std::string> base; // per reference component: the name its instance is given by the model that instantiates it
    std::vector<C06Model> models; // [0] = main
    std::set<std::string> classes;
    std::map<std::string, long> counters;
    int importEdges = 0;
    int chainDepth = 0;
    bool nontrivial = false;
    bool usesSubdir = false;
    bool chainGap = false; // an import element refers to an import element that lacks one of its placeholder variables
    bool importerChildren = false; // an import element has children in the model that holds it
    bool unitsDependencyKnownElsewhere = false; // a library units refers to units whose definition another model has under another name
    bool libraryAliasNamedLikeOtherUnits = false; // a library units X equals another model's units Y while the library has its own, different Y
    bool unitsDependencyIsImport = false; // a library units refers to units that the library imports
    bool libraryImportElementWithPlaceholders = false; // an import element inside a library model has (placeholder) variables
    bool importedUnitsNamedLikeLibraryUnits = false; // units imported under a name that other units of the model they come from have
    bool importerChildrenUseImportedUnits = false; // components below an import element use units their model imports

    std::string describe() const;
    std::string dirOf(size_t model) const; // "" or "sub/"
};

C06Forest c06GenForest(Src &src, const C06Options &opt);

// ---- observation of the flat model against the reference

struct C06Match
{
    // per reference component: the flat component matched to it
    std::vector<libcellml::ComponentPtr> comp;
    bool renamed = false; // some component carries a de-clash suffix
};

// All assignments of flat components to reference components that respect the encapsulation tree, the expected names
// (modulo a "_<n>" de-clash suffix) and the variable names. problem is set when there is none.
std::vector<C06Match> c06MatchComponents(const libcellml::ModelPtr &flat, const C06Forest &f, std::string &problem, size_t cap = 6);

// The reference truth with its components renamed to the names the flat model uses.
GtModel c06RenamedTruth(const C06Forest &f, const C06Match &m);

// Compares the partition of the flat model's variables by equivalence with the reference classes. "" when equal,
// otherwise first line = signature tail, rest = detail.
std::string c06CompareEquivalences(const C06Forest &f, const C06Match &m);

// Compares the units of every flat variable (reduced to base units and scale through public getters and the harness's
// own units algebra) with the units of the reference variable. "" when equal.
std::string c06CompareUnits(const libcellml::ModelPtr &flat, const C06Forest &f, const C06Match &m);

// Innermost libcellml frame of a sanitizer report / the reason a child died, as a signature token.
std::string c06CrashToken(const std::string &diag);

} // namespace vp

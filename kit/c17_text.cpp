#include "c17_text.h"

#include <cctype>
#include <csignal>
#include <cstdlib>
#include <fstream>
#include <sstream>
#include <sys/wait.h>
#include <unistd.h>

namespace vp {
namespace c17 {

namespace {

bool identChar(char ch)
{
    return std::isalnum(static_cast<unsigned char>(ch)) != 0 || ch == '_';
}

std::string trim(const std::string &s)
{
    size_t a = 0, b = s.size();
    while (a < b && std::isspace(static_cast<unsigned char>(s[a])) != 0) {
        ++a;
    }
    while (b > a && std::isspace(static_cast<unsigned char>(s[b - 1])) != 0) {
        --b;
    }
    return s.substr(a, b - a);
}

std::vector<std::string> lines(const std::string &text)
{
    std::vector<std::string> out;
    std::istringstream in(text);
    std::string l;
    while (std::getline(in, l)) {
        out.push_back(l);
    }
    return out;
}

// "double *" / "double" / "ExternalVariable": spaces normalised, one blank before the first '*'
std::string normType(const std::string &t)
{
    std::string words, stars;
    for (char ch : t) {
        if (ch == '*') {
            stars += '*';
        } else {
            words += ch;
        }
    }
    std::string w = trim(words), o;
    bool blank = false;
    for (char ch : w) {
        if (std::isspace(static_cast<unsigned char>(ch)) != 0) {
            blank = true;
        } else {
            if (blank && !o.empty()) {
                o += ' ';
            }
            blank = false;
            o += ch;
        }
    }
    return stars.empty() ? o : o + " " + stars;
}

// "double *states" -> "double *"; "double voi" -> "double"; "double *" -> "double *"
std::string paramType(const std::string &param)
{
    std::string p = trim(param);
    size_t e = p.size();
    while (e > 0 && identChar(p[e - 1])) {
        --e;
    }
    std::string head = trim(p.substr(0, e));
    if (head.empty()) {
        return normType(p); // a bare type name
    }
    // head is non-empty: the trailing identifier is the parameter name unless head is only qualifiers we do not expect
    return normType(head);
}

std::vector<std::string> splitParams(const std::string &inside, bool types)
{
    std::vector<std::string> out;
    std::string cur;
    int depth = 0;
    for (char ch : inside) {
        if (ch == '(') {
            ++depth;
        } else if (ch == ')') {
            --depth;
        }
        if (ch == ',' && depth == 0) {
            out.push_back(cur);
            cur.clear();
        } else {
            cur += ch;
        }
    }
    if (!trim(cur).empty() || !out.empty()) {
        out.push_back(cur);
    }
    for (auto &p : out) {
        p = types ? paramType(p) : trim(p);
    }
    if (types && out.size() == 1 && out[0] == "void") {
        out.clear();
    }
    return out;
}

// parses "<ret> name(params)" (C) - returns false when the line is not of that shape
bool parseCHead(const std::string &head, FuncText &f)
{
    if (head.empty() || std::isspace(static_cast<unsigned char>(head[0])) != 0 || head.back() != ')') {
        return false;
    }
    size_t open = head.find('(');
    if (open == std::string::npos || open == 0) {
        return false;
    }
    size_t e = open;
    while (e > 0 && head[e - 1] == ' ') {
        --e;
    }
    size_t s = e;
    while (s > 0 && identChar(head[s - 1])) {
        --s;
    }
    if (s == e || s == 0) {
        return false;
    }
    f.name = head.substr(s, e - s);
    f.ret = normType(head.substr(0, s));
    if (f.ret.empty()) {
        return false;
    }
    f.params = splitParams(head.substr(open + 1, head.size() - open - 2), true);
    f.line = head;
    return true;
}

std::string stripNoise(const std::string &text, bool cLike)
{
    std::string o;
    o.reserve(text.size());
    size_t i = 0, n = text.size();
    while (i < n) {
        char ch = text[i];
        if (cLike && ch == '/' && i + 1 < n && text[i + 1] == '*') {
            size_t e = text.find("*/", i + 2);
            e = e == std::string::npos ? n : e + 2;
            for (size_t k = i; k < e; ++k) {
                o += text[k] == '\n' ? '\n' : ' ';
            }
            i = e;
        } else if (!cLike && ch == '#') {
            while (i < n && text[i] != '\n') {
                o += ' ';
                ++i;
            }
        } else if (ch == '"') {
            o += ' ';
            ++i;
            while (i < n && text[i] != '"' && text[i] != '\n') {
                if (text[i] == '\\' && i + 1 < n) {
                    o += ' ';
                    ++i;
                }
                o += ' ';
                ++i;
            }
            if (i < n && text[i] == '"') {
                o += ' ';
                ++i;
            }
        } else {
            o += ch;
            ++i;
        }
    }
    return o;
}

int runCmd(const std::vector<std::string> &argv, std::string &out, int timeoutS)
{
    int pfd[2];
    if (pipe(pfd) != 0) {
        return -1;
    }
    pid_t pid = fork();
    if (pid < 0) {
        close(pfd[0]);
        close(pfd[1]);
        out = "fork failed";
        return -1;
    }
    if (pid == 0) {
        close(pfd[0]);
        dup2(pfd[1], 1);
        dup2(pfd[1], 2);
        close(pfd[1]);
        std::vector<char *> a;
        for (const auto &s : argv) {
            a.push_back(const_cast<char *>(s.c_str()));
        }
        a.push_back(nullptr);
        unsetenv("ASAN_OPTIONS");
        unsetenv("UBSAN_OPTIONS");
        unsetenv("LD_PRELOAD");
        signal(SIGALRM, SIG_DFL);
        alarm(static_cast<unsigned>(timeoutS));
        execvp(a[0], a.data());
        _exit(127);
    }
    close(pfd[1]);
    char buf[8192];
    ssize_t n;
    while ((n = read(pfd[0], buf, sizeof buf)) > 0) {
        if (out.size() < (1u << 20)) {
            out.append(buf, static_cast<size_t>(n));
        }
    }
    close(pfd[0]);
    int st = 0;
    waitpid(pid, &st, 0);
    if (WIFEXITED(st)) {
        return WEXITSTATUS(st);
    }
    return 1000 + (WIFSIGNALED(st) ? WTERMSIG(st) : 0);
}

} // namespace

std::string joinParams(const std::vector<std::string> &p)
{
    std::string o;
    for (size_t i = 0; i < p.size(); ++i) {
        o += (i != 0 ? ", " : "") + p[i];
    }
    return o;
}

std::vector<FuncText> cDefinitions(const std::string &text)
{
    std::vector<FuncText> out;
    auto ls = lines(text);
    for (size_t i = 0; i + 1 < ls.size(); ++i) {
        if (ls[i + 1] != "{") {
            continue;
        }
        FuncText f;
        if (parseCHead(ls[i], f)) {
            out.push_back(f);
        }
    }
    return out;
}

std::vector<FuncText> cPrototypes(const std::string &text)
{
    std::vector<FuncText> out;
    for (const auto &l : lines(text)) {
        if (l.size() < 3 || l.back() != ';' || l.rfind("typedef", 0) == 0 || l.rfind("extern", 0) == 0) {
            continue;
        }
        FuncText f;
        if (parseCHead(l.substr(0, l.size() - 1), f)) {
            f.line = l;
            out.push_back(f);
        }
    }
    return out;
}

std::vector<FuncText> pyDefinitions(const std::string &text)
{
    std::vector<FuncText> out;
    for (const auto &l : lines(text)) {
        if (l.rfind("def ", 0) != 0) {
            continue;
        }
        size_t open = l.find('('), close = l.rfind("):");
        if (open == std::string::npos || close == std::string::npos || close < open) {
            continue;
        }
        FuncText f;
        f.name = trim(l.substr(4, open - 4));
        f.params = splitParams(l.substr(open + 1, close - open - 1), false);
        f.line = l;
        out.push_back(f);
    }
    return out;
}

std::set<std::string> calledNames(const std::string &text, const std::set<std::string> &candidates, bool cLike)
{
    std::set<std::string> defLines;
    for (const auto &f : cLike ? cDefinitions(text) : pyDefinitions(text)) {
        defLines.insert(f.line);
    }
    std::set<std::string> out;
    auto raw = lines(text);
    auto clean = lines(stripNoise(text, cLike));
    for (size_t li = 0; li < clean.size() && li < raw.size(); ++li) {
        if (defLines.count(raw[li]) != 0) {
            continue;
        }
        const std::string &l = clean[li];
        for (size_t i = 0; i < l.size(); ++i) {
            if (!identChar(l[i]) || (i > 0 && (identChar(l[i - 1]) || l[i - 1] == '.'))) {
                continue;
            }
            size_t e = i;
            while (e < l.size() && identChar(l[e])) {
                ++e;
            }
            if (e < l.size() && l[e] == '(') {
                std::string name = l.substr(i, e - i);
                if (candidates.count(name) != 0) {
                    out.insert(name);
                }
            }
            i = e;
        }
    }
    return out;
}

long tableEntries(const std::string &text, const std::string &marker)
{
    auto ls = lines(text);
    for (size_t i = 0; i < ls.size(); ++i) {
        if (ls[i] != marker) {
            continue;
        }
        long n = 0;
        for (size_t k = i + 1; k < ls.size(); ++k) {
            if (ls[k].rfind("    {", 0) == 0) {
                ++n;
            } else {
                return n;
            }
        }
        return n;
    }
    return -1;
}

const std::vector<Helper> &helpers()
{
    static const std::vector<Helper> h = {
        {Op::XOR, "xor", "xor_func"},
        {Op::MIN, "min", "min"},
        {Op::MAX, "max", "max"},
        {Op::SEC, "sec", "sec"},
        {Op::CSC, "csc", "csc"},
        {Op::COT, "cot", "cot"},
        {Op::SECH, "sech", "sech"},
        {Op::CSCH, "csch", "csch"},
        {Op::COTH, "coth", "coth"},
        {Op::ASEC, "asec", "asec"},
        {Op::ACSC, "acsc", "acsc"},
        {Op::ACOT, "acot", "acot"},
        {Op::ASECH, "asech", "asech"},
        {Op::ACSCH, "acsch", "acsch"},
        {Op::ACOTH, "acoth", "acoth"},
        {Op::EQ, nullptr, "eq_func"},
        {Op::NEQ, nullptr, "neq_func"},
        {Op::LT, nullptr, "lt_func"},
        {Op::LEQ, nullptr, "leq_func"},
        {Op::GT, nullptr, "gt_func"},
        {Op::GEQ, nullptr, "geq_func"},
        {Op::AND, nullptr, "and_func"},
        {Op::OR, nullptr, "or_func"},
        {Op::NOT, nullptr, "not_func"},
    };
    return h;
}

void collectOps(const Expr &e, std::set<Op> &out)
{
    if (!isLeaf(e.op)) {
        out.insert(e.op);
    }
    for (const auto &k : e.kids) {
        collectOps(k, out);
    }
}

std::vector<std::string> forbiddenDiagnostics(const std::string &ccOutput, std::set<std::string> *flags)
{
    std::vector<std::string> bad;
    for (const auto &l : lines(ccOutput)) {
        bool diag = l.find(" warning: ") != std::string::npos || l.find(" error: ") != std::string::npos || l.find("fatal error:") != std::string::npos;
        if (!diag) {
            continue;
        }
        if (l.find("[-Wunused-parameter]") != std::string::npos || l.find("[-Wunused-variable]") != std::string::npos) {
            continue;
        }
        bad.push_back(l);
        if (flags != nullptr) {
            size_t p = l.rfind("[-W");
            size_t q = p == std::string::npos ? p : l.find(']', p);
            flags->insert(p != std::string::npos && q != std::string::npos ? l.substr(p + 1, q - p - 1) : (l.find("error:") != std::string::npos ? "error" : "warning"));
        }
    }
    return bad;
}

std::vector<FuncText> expectedCInterface(bool ode, bool ext)
{
    auto fn = [](const char *ret, const char *name, std::vector<std::string> params) {
        FuncText f;
        f.ret = ret;
        f.name = name;
        f.params = std::move(params);
        return f;
    };
    const std::string D = "double", P = "double *", X = "ExternalVariable";
    std::vector<FuncText> v;
    if (ode) {
        v.push_back(fn("double *", "createStatesArray", {}));
    }
    v.push_back(fn("double *", "createVariablesArray", {}));
    v.push_back(fn("void", "deleteArray", {P}));
    if (ode) {
        v.push_back(ext ? fn("void", "initialiseVariables", {D, P, P, P, X}) : fn("void", "initialiseVariables", {P, P, P}));
    } else {
        v.push_back(ext ? fn("void", "initialiseVariables", {P, X}) : fn("void", "initialiseVariables", {P}));
    }
    v.push_back(fn("void", "computeComputedConstants", {P}));
    if (ode) {
        v.push_back(ext ? fn("void", "computeRates", {D, P, P, P, X}) : fn("void", "computeRates", {D, P, P, P}));
        v.push_back(ext ? fn("void", "computeVariables", {D, P, P, P, X}) : fn("void", "computeVariables", {D, P, P, P}));
    } else {
        v.push_back(ext ? fn("void", "computeVariables", {P, X}) : fn("void", "computeVariables", {P}));
    }
    return v;
}

std::vector<FuncText> expectedPyInterface(bool ode, bool ext)
{
    auto fn = [](const char *name, std::vector<std::string> params) {
        FuncText f;
        f.name = name;
        f.params = std::move(params);
        return f;
    };
    const std::string X = "external_variable";
    std::vector<FuncText> v;
    if (ode) {
        v.push_back(fn("create_states_array", {}));
    }
    v.push_back(fn("create_variables_array", {}));
    if (ode) {
        v.push_back(ext ? fn("initialise_variables", {"voi", "states", "rates", "variables", X}) : fn("initialise_variables", {"states", "rates", "variables"}));
    } else {
        v.push_back(ext ? fn("initialise_variables", {"variables", X}) : fn("initialise_variables", {"variables"}));
    }
    v.push_back(fn("compute_computed_constants", {"variables"}));
    if (ode) {
        v.push_back(ext ? fn("compute_rates", {"voi", "states", "rates", "variables", X}) : fn("compute_rates", {"voi", "states", "rates", "variables"}));
        v.push_back(ext ? fn("compute_variables", {"voi", "states", "rates", "variables", X}) : fn("compute_variables", {"voi", "states", "rates", "variables"}));
    } else {
        v.push_back(ext ? fn("compute_variables", {"variables", X}) : fn("compute_variables", {"variables"}));
    }
    return v;
}

std::string addressProbe(const std::string &dir, const std::vector<FuncText> &declared, const std::vector<FuncText> &expected, bool nla)
{
    std::ostringstream o;
    o << "#include \"model.h\"\n\n";
    if (nla) {
        o << "void nlaSolve(void (*objectiveFunction)(double *, double *, void *), double *u, size_t n, void *data)\n{\n    (void)objectiveFunction; (void)u; (void)n; (void)data;\n}\n\n";
    }
    size_t k = 0;
    for (const auto &d : declared) {
        const FuncText *want = &d;
        for (const auto &e : expected) {
            if (e.name == d.name) {
                want = &e;
            }
        }
        std::string params = want->params.empty() ? "void" : joinParams(want->params);
        o << want->ret << " (*const c17_p" << k++ << ")(" << params << ") = " << d.name << ";\n";
    }
    o << "\nint main(void)\n{\n    return (";
    for (size_t i = 0; i < k; ++i) {
        o << (i != 0 ? " && " : "") << "c17_p" << i << " != 0";
    }
    if (k == 0) {
        o << "1";
    }
    o << ") ? 0 : 1;\n}\n";
    {
        std::ofstream f(dir + "/c17_probe.c", std::ios::binary);
        f << o.str();
    }
    std::string out;
    int rc = runCmd({"cc", "-std=c99", "-Werror=incompatible-pointer-types", "-I", dir, "-o", dir + "/c17_probe.exe", dir + "/c17_probe.c", dir + "/model.c", "-lm"}, out, 60);
    if (rc != 0) {
        return "exit status " + std::to_string(rc) + "\n" + out.substr(0, 4000) + "\n--- c17_probe.c ---\n" + o.str();
    }
    return "";
}

} // namespace c17
} // namespace vp

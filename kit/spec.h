// Pure-data description of a CellML model; independent construction (API), independent serialisation
// (own XML writer for 2.0 / 1.1 / 1.0) and independent observation (dump through public getters only).
#pragma once
#include <libcellml>

#include <map>
#include <string>
#include <vector>

#include "expr.h"
#include "tape.h"

namespace vp {

struct UnitSpec
{
    std::string ref;
    std::string prefix; // "" = none
    double exponent = 1.0;
    double multiplier = 1.0;
    std::string id;
};

struct UnitsSpec
{
    std::string name, id;
    std::vector<UnitSpec> units;
    int import = -1; // index into ModelSpec::imports, -1 = local
    std::string importRef;
};

struct VarSpec
{
    std::string name, id;
    std::string units; // "" = none
    std::string initial;
    std::string iface; // "" = none set
};

struct ResetSpec
{
    std::string id;
    int var = -1, testVar = -1; // indices into the owning component's variables; -1 = unset
    bool hasOrder = false;
    int order = 0;
    std::string testValue, resetValue; // math strings ("" = absent)
    std::string testValueId, resetValueId;
};

struct CompSpec
{
    std::string name, id, encId;
    std::vector<VarSpec> vars;
    std::vector<ResetSpec> resets;
    std::vector<std::string> math; // appended math blocks
    std::vector<std::pair<Expr, Expr>> equations; // informative: equations the math blocks were made of
    int parent = -1; // index into ModelSpec::comps, -1 = top level
    int import = -1;
    std::string importRef;
};

struct MapSpec
{
    int v1 = 0, v2 = 0;
    std::string id;
};

struct ConnSpec
{
    int c1 = 0, c2 = 0; // component indices
    std::string id;
    std::vector<MapSpec> maps;
};

struct ImportSpec
{
    std::string url, id;
};

struct ModelSpec
{
    std::string name, id, encId;
    std::vector<UnitsSpec> units;
    std::vector<CompSpec> comps; // parents precede children
    std::vector<ConnSpec> conns;
    std::vector<ImportSpec> imports;

    std::vector<int> childrenOf(int parent) const;
    int depthOf(int c) const;
};

// Construction through the public API. order: permutation seed controlling insertion order of independent items
// (0 = spec order). Output maps let callers find the objects made for spec items.
struct Built
{
    libcellml::ModelPtr model;
    std::vector<libcellml::ComponentPtr> comps;
    std::vector<libcellml::UnitsPtr> units;
    std::vector<libcellml::ImportSourcePtr> imports;
    std::vector<std::vector<libcellml::VariablePtr>> vars;
    std::vector<std::vector<libcellml::ResetPtr>> resets;
};
Built buildApi(const ModelSpec &spec, Src *order = nullptr);

// Independent XML writer. version: 20, 11, 10. layout drives attribute order / whitespace / comments.
struct XmlOptions
{
    int version = 20;
    uint32_t layout = 0;
    bool unitsInComponents = false; // 1.x: declare some units inside the first component
    bool explicitNone = false; // 1.x: write public_interface="none" / private_interface="none" explicitly
    bool cmetaId = false; // 1.x: ids as cmeta:id
    bool oldSpellings = false; // 1.x: liter / meter
    bool extras = false; // 1.x: RDF and extension elements to be dropped, non-encapsulation group
};
std::string writeXml(const ModelSpec &spec, const XmlOptions &opt);
std::string xmlEscape(const std::string &s);

// Canonical observation of a model through public getters only.
enum DumpFlags
{
    DUMP_ORDERED = 1, // keep child order (default: order-insensitive, children sorted)
    DUMP_RAW_MATH = 2, // raw math strings (default: canonical math)
    DUMP_NO_IMPORT_MODEL = 4, // do not record whether import sources have a model attached
    DUMP_PTR_IMPORTS = 8, // identify import sources by sharing (which entities share one ImportSource object)
};
std::string dumpModel(const libcellml::ModelPtr &model, int flags = 0);
std::string dumpComponent(const libcellml::ComponentPtr &component, int flags = 0);
std::string dumpUnits(const libcellml::UnitsPtr &units, int flags = 0);
std::string dumpVariable(const libcellml::VariablePtr &variable, int flags = 0);
std::string dumpReset(const libcellml::ResetPtr &reset, int flags = 0);
std::string dumpIssues(const libcellml::LoggerPtr &logger);
std::string mathCanon(const std::string &math); // "" stays ""; unparsable text is returned as "UNPARSABLE:" + text
std::string fmtDouble(double v);
std::string firstDiff(const std::string &a, const std::string &b); // human readable first differing line

// Text form of a spec (used as sample / replay comment).
std::string specToText(const ModelSpec &spec);

// C15: coherence of a logger after a service call. Returns "" when coherent, else a description.
std::string checkLogger(const libcellml::LoggerPtr &logger);

} // namespace vp

// C15: enumerator tables generated from the headers (kit/c15_enums.inc, see bin/c15_enums.py) and the part of the
// issue-list oracle that is stricter than vp::checkLogger (kit/spec.cpp). Header only; used by props/C15.cpp and props/C15_enum.cpp.
#pragma once
#include <libcellml>

#include <cstdint>
#include <limits>
#include <stdexcept>
#include <string>
#include <vector>

#include "spec.h"

namespace vp {
namespace c15 {

// ---- enumerations, extracted from issue.h / enums.h at build time ----
inline const std::vector<const char *> &ruleNames()
{
    static const std::vector<const char *> v = {
#define C15_RULE(name) #name,
#include "c15_enums.inc"
    };
    return v;
}
inline const std::vector<const char *> &levelNames()
{
    static const std::vector<const char *> v = {
#define C15_LEVEL(name) #name,
#include "c15_enums.inc"
    };
    return v;
}
inline const std::vector<const char *> &elementTypeNames()
{
    static const std::vector<const char *> v = {
#define C15_ELEMENT_TYPE(name) #name,
#include "c15_enums.inc"
    };
    return v;
}

// Every listed name is an enumerator and its value is its position (so that "all values 0..n-1" is "all enumerators").
// A failure here means kit/c15_enums.inc is stale: run  bin/c15_enums.py /repo --write kit/c15_enums.inc
namespace detail {
constexpr int kRuleValues[] = {
#define C15_RULE(name) static_cast<int>(libcellml::Issue::ReferenceRule::name),
#include "c15_enums.inc"
};
constexpr int kLevelValues[] = {
#define C15_LEVEL(name) static_cast<int>(libcellml::Issue::Level::name),
#include "c15_enums.inc"
};
constexpr int kTypeValues[] = {
#define C15_ELEMENT_TYPE(name) static_cast<int>(libcellml::CellmlElementType::name),
#include "c15_enums.inc"
};
template<size_t N>
constexpr bool valueIsPosition(const int (&a)[N])
{
    for (size_t i = 0; i < N; ++i) {
        if (a[i] != static_cast<int>(i)) {
            return false;
        }
    }
    return true;
}
static_assert(valueIsPosition(kRuleValues), "kit/c15_enums.inc is stale (Issue::ReferenceRule): run bin/c15_enums.py <repo> --write kit/c15_enums.inc");
static_assert(valueIsPosition(kLevelValues), "kit/c15_enums.inc is stale (Issue::Level): run bin/c15_enums.py <repo> --write kit/c15_enums.inc");
static_assert(valueIsPosition(kTypeValues), "kit/c15_enums.inc is stale (CellmlElementType): run bin/c15_enums.py <repo> --write kit/c15_enums.inc");
} // namespace detail

inline std::string ruleName(libcellml::Issue::ReferenceRule r)
{
    size_t k = static_cast<size_t>(r);
    return k < ruleNames().size() ? ruleNames()[k] : "rule#" + std::to_string(k);
}
inline std::string typeName(libcellml::CellmlElementType t)
{
    size_t k = static_cast<size_t>(t);
    return k < elementTypeNames().size() ? elementTypeNames()[k] : "type#" + std::to_string(k);
}

// ---- typed accessors of an AnyCellmlElement ----
enum Accessor
{
    A_COMPONENT = 1,
    A_IMPORT_SOURCE = 2,
    A_MODEL = 4,
    A_RESET = 8,
    A_UNITS = 16,
    A_UNITS_ITEM = 32,
    A_VARIABLE = 64,
    A_VARIABLE_PAIR = 128,
};
inline unsigned accessorMask(const libcellml::AnyCellmlElementPtr &item)
{
    unsigned m = 0;
    m |= item->component() != nullptr ? A_COMPONENT : 0;
    m |= item->importSource() != nullptr ? A_IMPORT_SOURCE : 0;
    m |= item->model() != nullptr ? A_MODEL : 0;
    m |= item->reset() != nullptr ? A_RESET : 0;
    m |= item->units() != nullptr ? A_UNITS : 0;
    m |= item->unitsItem() != nullptr ? A_UNITS_ITEM : 0;
    m |= item->variable() != nullptr ? A_VARIABLE : 0;
    m |= item->variablePair() != nullptr ? A_VARIABLE_PAIR : 0;
    return m;
}
// The one accessor documented to serve an element type (types.h: "or nullptr if the internal type is not ..."); 0 for
// UNDEFINED and for MATH (the owning component of a MATH item is stored but no public accessor hands it out:
// component() is documented and implemented for COMPONENT / COMPONENT_REF only).
inline unsigned expectedAccessor(libcellml::CellmlElementType t)
{
    using T = libcellml::CellmlElementType;
    switch (t) {
    case T::COMPONENT:
    case T::COMPONENT_REF: return A_COMPONENT;
    case T::CONNECTION:
    case T::MAP_VARIABLES: return A_VARIABLE_PAIR;
    case T::ENCAPSULATION:
    case T::MODEL: return A_MODEL;
    case T::IMPORT: return A_IMPORT_SOURCE;
    case T::RESET:
    case T::RESET_VALUE:
    case T::TEST_VALUE: return A_RESET;
    case T::UNIT: return A_UNITS_ITEM;
    case T::UNITS: return A_UNITS;
    case T::VARIABLE: return A_VARIABLE;
    case T::MATH:
    case T::UNDEFINED: return 0;
    }
    return 0;
}
inline std::string maskText(unsigned m)
{
    static const char *names[] = {"component", "importSource", "model", "reset", "units", "unitsItem", "variable", "variablePair"};
    std::string s;
    for (int i = 0; i < 8; ++i) {
        if ((m & (1u << i)) != 0) {
            s += (s.empty() ? "" : "+") + std::string(names[i]);
        }
    }
    return s.empty() ? "none" : s;
}
// "" when exactly the accessor of the stated type (and no other) hands out an object; for MATH / UNDEFINED: none does.
inline std::string checkItemAccessors(const libcellml::AnyCellmlElementPtr &item)
{
    if (item == nullptr) {
        return "null item";
    }
    size_t t = static_cast<size_t>(item->type());
    if (t >= elementTypeNames().size()) {
        return "item type " + std::to_string(t) + " is outside the enumeration";
    }
    unsigned want = expectedAccessor(item->type()), got = accessorMask(item);
    if (want != got) {
        return "item of type " + typeName(item->type()) + ": accessors returning an object = {" + maskText(got) + "}, expected {" + maskText(want) + "}";
    }
    return "";
}

// The items that hold their objects weakly (VariablePair -> two variables, UnitsItem -> units + index) must name live objects
// right after the call that produced the issue, while the caller still holds the model: a CONNECTION / MAP_VARIABLES item whose
// pair has a null variable, or a UNIT item that is not valid, names no element at all ("stored object matches its stated type").
// Callers must keep the model the service worked on alive while they judge the logger.
inline std::string checkItemValid(const libcellml::AnyCellmlElementPtr &item)
{
    using T = libcellml::CellmlElementType;
    if (item == nullptr) {
        return "";
    }
    if (item->type() == T::CONNECTION || item->type() == T::MAP_VARIABLES) {
        auto pair = item->variablePair();
        if (pair != nullptr && (pair->variable1() == nullptr || pair->variable2() == nullptr)) {
            return "item of type " + typeName(item->type()) + " holds a VariablePair with " + (pair->variable1() == nullptr ? std::string("no variable1") : std::string("a variable1")) + " and "
                   + (pair->variable2() == nullptr ? "no variable2" : "a variable2") + " (isValid() = " + (pair->isValid() ? "true" : "false") + ")";
        }
    }
    if (item->type() == T::UNIT) {
        auto ui = item->unitsItem();
        if (ui != nullptr && !ui->isValid()) {
            return std::string("item of type UNIT holds a UnitsItem that is not valid (units ") + (ui->units() == nullptr ? "gone" : "alive") + ", index " + std::to_string(ui->index()) + ")";
        }
    }
    return "";
}

// ---- the stricter half of the logger oracle ----
// Returns "" or "<oracle>|<detail>|<text>". Never throws: exceptions of the accessors are part of the verdict.
inline std::string strictLogger(const libcellml::LoggerPtr &lg)
{
    try {
        size_t n = lg->issueCount();
        const size_t big = std::numeric_limits<size_t>::max();
        for (size_t probe : {n, n + 1, n + 1000, big, big - 1, big / 2 + 1}) {
            if (lg->issue(probe) != nullptr || (probe >= lg->errorCount() && lg->error(probe) != nullptr) || (probe >= lg->warningCount() && lg->warning(probe) != nullptr)
                || (probe >= lg->messageCount() && lg->message(probe) != nullptr)) {
                return "out-of-range|index|index " + std::to_string(probe) + " returned an issue (issueCount " + std::to_string(n) + ")";
            }
        }
        for (size_t i = 0; i < lg->errorCount(); ++i) {
            auto is = lg->error(i);
            if (is == nullptr || is->level() != libcellml::Issue::Level::ERROR) {
                return std::string("level-index|error|error(") + std::to_string(i) + ") is " + (is == nullptr ? "null" : "not of level ERROR");
            }
        }
        for (size_t i = 0; i < lg->warningCount(); ++i) {
            auto is = lg->warning(i);
            if (is == nullptr || is->level() != libcellml::Issue::Level::WARNING) {
                return std::string("level-index|warning|warning(") + std::to_string(i) + ") is " + (is == nullptr ? "null" : "not of level WARNING");
            }
        }
        for (size_t i = 0; i < lg->messageCount(); ++i) {
            auto is = lg->message(i);
            if (is == nullptr || is->level() != libcellml::Issue::Level::MESSAGE) {
                return std::string("level-index|message|message(") + std::to_string(i) + ") is " + (is == nullptr ? "null" : "not of level MESSAGE");
            }
        }
        for (size_t i = 0; i < n; ++i) {
            auto is = lg->issue(i);
            if (is == nullptr) {
                return "null-issue|issue|issue(" + std::to_string(i) + ") is null below issueCount";
            }
            if (is != lg->issue(i)) {
                return "unstable|issue|issue(" + std::to_string(i) + ") returns different objects on two reads";
            }
            for (size_t j = 0; j < i; ++j) {
                if (lg->issue(j) == is) {
                    return "duplicate|issue|issue(" + std::to_string(j) + ") and issue(" + std::to_string(i) + ") are the same object: " + is->description();
                }
            }
            size_t r = static_cast<size_t>(is->referenceRule());
            if (r >= ruleNames().size()) {
                return "rule-range|rule#" + std::to_string(r) + "|issue(" + std::to_string(i) + ") carries a reference rule outside the enumeration";
            }
            std::string heading, url;
            try {
                heading = is->referenceHeading();
                url = is->url();
            } catch (const std::exception &e) {
                return "rule-table|" + ruleName(is->referenceRule()) + "|referenceHeading()/url() threw " + e.what() + " for issue(" + std::to_string(i) + "): " + is->description();
            }
            if (url.empty() && is->referenceRule() != libcellml::Issue::ReferenceRule::UNDEFINED) {
                return "url|" + ruleName(is->referenceRule()) + "|empty url";
            }
            std::string it = checkItemAccessors(is->item());
            if (!it.empty()) {
                return "item-accessors|" + (is->item() != nullptr ? typeName(is->item()->type()) : std::string("null")) + "|issue(" + std::to_string(i) + "): " + it + ": " + is->description();
            }
            it = checkItemValid(is->item());
            if (!it.empty()) {
                return "item-invalid|" + typeName(is->item()->type()) + "|issue(" + std::to_string(i) + ") [" + ruleName(is->referenceRule()) + "]: " + it + ": " + is->description();
            }
        }
    } catch (const std::exception &e) {
        return std::string("throw|logger-accessor|an accessor of the logger threw ") + e.what();
    }
    return "";
}

// checkLogger of the kit, with exceptions turned into a verdict.
inline std::string kitLogger(const libcellml::LoggerPtr &lg)
{
    try {
        return checkLogger(lg);
    } catch (const std::exception &e) {
        return std::string("throw|an accessor of the logger or of an issue threw ") + e.what();
    }
}

} // namespace c15
} // namespace vp

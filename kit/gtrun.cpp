#include "gtrun.h"

#include <cmath>
#include <sstream>

using namespace libcellml;

namespace vp {

bool closeEnough(double a, double b, double relTol)
{
    if (std::isnan(a) || std::isnan(b)) {
        return std::isnan(a) && std::isnan(b);
    }
    if (std::isinf(a) || std::isinf(b)) {
        return a == b;
    }
    return std::fabs(a - b) <= relTol * std::max(1.0, std::fabs(b));
}

static bool mapOne(const AnalyserVariablePtr &av, const GtModel &gt, std::pair<int, int> &out, std::string &problem)
{
    if (av == nullptr || av->variable() == nullptr) {
        problem = "analyser variable without a variable";
        return false;
    }
    auto v = av->variable();
    auto comp = std::dynamic_pointer_cast<Component>(v->parent());
    if (comp == nullptr) {
        problem = "analyser variable '" + v->name() + "' has no owning component";
        return false;
    }
    int cls = -1, inst = -1;
    if (!gt.findInstance(comp->name(), v->name(), cls, inst)) {
        problem = "analyser variable " + comp->name() + "." + v->name() + " is unknown to the ground truth";
        return false;
    }
    out = {cls, inst};
    return true;
}

bool mapAnalyserModel(const AnalyserModelPtr &am, const GtModel &gt, GtMapping &m)
{
    m.am = am;
    m.problem.clear();
    if (am == nullptr) {
        m.problem = "null analyser model";
        return false;
    }
    if (am->voi() != nullptr) {
        std::pair<int, int> p;
        if (!mapOne(am->voi(), gt, p, m.problem)) {
            return false;
        }
        m.hasVoi = true;
        m.voiCls = p.first;
        m.voiInst = p.second;
    }
    for (size_t i = 0; i < am->stateCount(); ++i) {
        std::pair<int, int> p;
        if (!mapOne(am->state(i), gt, p, m.problem)) {
            return false;
        }
        m.states.push_back(p);
    }
    for (size_t i = 0; i < am->variableCount(); ++i) {
        std::pair<int, int> p;
        if (!mapOne(am->variable(i), gt, p, m.problem)) {
            return false;
        }
        m.vars.push_back(p);
    }
    return true;
}

RunPlan makeRunPlan(const GtModel &gt, const GtMapping &m)
{
    RunPlan p;
    p.ode = m.hasVoi;
    if (m.hasVoi) {
        p.voi[0] = gt.instanceValue(m.voiCls, m.voiInst, 0);
        p.voi[1] = gt.instanceValue(m.voiCls, m.voiInst, 1);
    }
    for (const auto &s : m.states) {
        p.states2.push_back(gt.instanceValue(s.first, s.second, 1));
    }
    for (size_t i = 0; i < m.vars.size(); ++i) {
        const auto &v = m.vars[i];
        if (v.first >= 0 && gt.classes[static_cast<size_t>(v.first)].role == GtRole::NLA) {
            p.preload[0].emplace_back(i, gt.instanceValue(v.first, v.second, 0));
            p.preload[1].emplace_back(i, gt.instanceValue(v.first, v.second, 1));
        }
    }
    return p;
}

double expectedRate(const GtModel &gt, const GtMapping &m, size_t stateIndex, int point)
{
    const auto &si = m.states[stateIndex];
    const GtClass &c = gt.classes[static_cast<size_t>(si.first)];
    const GtClass &voi = gt.classes[static_cast<size_t>(gt.voi)];
    double sxh = c.inst[0].log10scale;
    double sxp = c.inst[static_cast<size_t>(si.second)].log10scale;
    double stp = voi.inst[static_cast<size_t>(m.voiInst)].log10scale;
    double stl = voi.inst[static_cast<size_t>(c.voiLocalInst)].log10scale;
    return c.rate[point] * std::pow(10.0, sxh - sxp) * std::pow(10.0, stp - stl);
}

namespace {

std::string describeVar(const GtModel &gt, const std::pair<int, int> &ci)
{
    const GtClass &c = gt.classes[static_cast<size_t>(ci.first)];
    const auto &in = c.inst[static_cast<size_t>(ci.second)];
    const auto &cs = gt.spec.comps[static_cast<size_t>(in.comp)];
    std::string s = cs.name + "." + cs.vars[static_cast<size_t>(in.var)].name + " [" + in.units + "] role=" + gtRoleName(c.role);
    if (c.role != GtRole::CONSTANT && c.role != GtRole::VOI) {
        s += " defined by " + exprToSexp(c.rhs);
    }
    return s;
}

bool scaledClass(const GtModel &gt, int cls)
{
    const GtClass &c = gt.classes[static_cast<size_t>(cls)];
    for (const auto &i : c.inst) {
        if (i.log10scale != c.inst[0].log10scale) {
            return true;
        }
    }
    for (int d : c.deps) {
        const GtClass &dc = gt.classes[static_cast<size_t>(d)];
        for (const auto &i : dc.inst) {
            if (i.log10scale != dc.inst[0].log10scale) {
                return true;
            }
        }
    }
    return false;
}

} // namespace

std::string compareRunWithTruth(const GtModel &gt, const GtMapping &m, const RunResult &r, double tol, long *comparisons)
{
    std::ostringstream o;
    auto cmp = [&](const char *stage, const std::vector<double> &got, size_t i, double want, const std::pair<int, int> &ci) -> bool {
        if (comparisons != nullptr) {
            ++*comparisons;
        }
        if (i >= got.size()) {
            o << stage << "|missing\n"
              << "array " << stage << " has " << got.size() << " entries, index " << i << " expected";
            return false;
        }
        if (!closeEnough(got[i], want, tol)) {
            o << stage << "|" << gtRoleName(gt.classes[static_cast<size_t>(ci.first)].role) << (scaledClass(gt, ci.first) ? "|scaled" : "") << "\n"
              << stage << "[" << i << "] = " << got[i] << " but the model says " << want << " for " << describeVar(gt, ci);
            return false;
        }
        return true;
    };
    // states: initial values, and untouched by the compute calls
    for (size_t i = 0; i < m.states.size(); ++i) {
        if (!cmp("init-states", r.initStates, i, gt.instanceValue(m.states[i].first, m.states[i].second, 0), m.states[i])) {
            return o.str();
        }
        if (!cmp("states-after-compute-0", r.states[0], i, gt.instanceValue(m.states[i].first, m.states[i].second, 0), m.states[i])) {
            return o.str();
        }
        if (!cmp("states-after-compute-1", r.states[1], i, gt.instanceValue(m.states[i].first, m.states[i].second, 1), m.states[i])) {
            return o.str();
        }
    }
    for (size_t i = 0; i < m.vars.size(); ++i) {
        const auto &ci = m.vars[i];
        const GtClass &c = gt.classes[static_cast<size_t>(ci.first)];
        // after initialiseVariables + computeComputedConstants: constants and computed constants
        if (c.role == GtRole::CONSTANT || c.role == GtRole::COMPUTED_CONSTANT) {
            if (!cmp("after-computeComputedConstants", r.ccVars, i, gt.instanceValue(ci.first, ci.second, 0), ci)) {
                return o.str();
            }
        }
        if (c.role == GtRole::CONSTANT) {
            if (!cmp("after-initialiseVariables", r.initVars, i, gt.instanceValue(ci.first, ci.second, 0), ci)) {
                return o.str();
            }
        }
    }
    for (int pt = 0; pt < 2; ++pt) {
        for (size_t i = 0; i < m.states.size(); ++i) {
            if (!cmp(pt == 0 ? "rates-0" : "rates-1", r.rates[pt], i, expectedRate(gt, m, i, pt), m.states[i])) {
                return o.str();
            }
        }
        for (size_t i = 0; i < m.vars.size(); ++i) {
            if (!cmp(pt == 0 ? "variables-0" : "variables-1", r.vars[pt], i, gt.instanceValue(m.vars[i].first, m.vars[i].second, pt), m.vars[i])) {
                return o.str();
            }
        }
    }
    return "";
}

std::string compareRuns(const RunResult &a, const RunResult &b, double tol, long *comparisons)
{
    auto cmpv = [&](const char *what, const std::vector<double> &x, const std::vector<double> &y) -> std::string {
        if (x.size() != y.size()) {
            return std::string(what) + "|size\n" + what + ": sizes differ " + std::to_string(x.size()) + " vs " + std::to_string(y.size());
        }
        for (size_t i = 0; i < x.size(); ++i) {
            if (comparisons != nullptr) {
                ++*comparisons;
            }
            if (!closeEnough(x[i], y[i], tol) && !closeEnough(y[i], x[i], tol)) {
                std::ostringstream o;
                o << what << "|value\n"
                  << what << "[" << i << "]: C gives " << x[i] << ", Python gives " << y[i];
                return o.str();
            }
        }
        return "";
    };
    std::string r;
    if (!(r = cmpv("init-states", a.initStates, b.initStates)).empty()) {
        return r;
    }
    if (!(r = cmpv("after-computeComputedConstants", a.ccVars, b.ccVars)).empty()) {
        return r;
    }
    for (int pt = 0; pt < 2; ++pt) {
        if (!(r = cmpv(pt == 0 ? "rates-0" : "rates-1", a.rates[pt], b.rates[pt])).empty()) {
            return r;
        }
        if (!(r = cmpv(pt == 0 ? "variables-0" : "variables-1", a.vars[pt], b.vars[pt])).empty()) {
            return r;
        }
    }
    return "";
}

} // namespace vp

// C05: a model under test together with its ground truth, in a form that survives permutation / renaming
// (classes are tracked per variable instance, equations are kept as expression pairs and re-serialised).
#pragma once
#include <libcellml>

#include <set>
#include <string>
#include <vector>

#include "gt.h"
#include "spec.h"

namespace vp {
namespace c05 {

struct Eq
{
    Expr lhs, rhs;
    std::string raw; // non-empty: MathML of the whole equation written verbatim (second-order derivative variant)
    int defines = -1; // class computed by this equation when it is a direct definition or an ODE; -1: implicit (NLA) equation
    int system = -1; // NLA system of an implicit equation
};

struct TClass
{
    GtRole role = GtRole::CONSTANT;
    bool loose = false; // NLA unknown whose inputs are all constant: computed_constant and algebraic are both accepted
    bool guess = false; // NLA unknown carrying an initial guess
    bool initByName = false; // state initialised through the name of a constant
    bool initialises = false; // constant whose name initialises a state
    bool reader = false; // added by the harness: reads an NLA unknown (directly or through another reader)
    bool added = false; // added by an explorer shape: never the target of a constraint variant
    std::vector<int> deps; // classes the defining expression reads
    int system = -1;
};

struct TM
{
    ModelSpec spec; // comps[i].math is rebuilt from eqs by rebuildMath()
    std::vector<std::vector<Eq>> eqs; // per component
    std::vector<std::vector<size_t>> blocks; // per component: sizes of the <math> blocks (empty = one block)
    std::vector<std::vector<int>> classOf; // per component, per variable: class (-1 = none)
    std::vector<std::vector<int>> origin; // per component, per variable: identity of the instance in the base model
    std::vector<TClass> classes;
    std::vector<std::vector<int>> systems; // unknown classes per NLA system
    std::string type; // expected AnalyserModel type
    int voi = -1;
    std::string shape; // explorer shape added to the base model ("" = none), used as a localisation token
    unsigned commentSeed = 0; // != 0: XML comments are written into the math (serialisation dimension)

    int instanceIn(int cls, size_t comp) const; // variable index of the instance of cls in comp, -1 if none
    int homeComp(int cls) const; // component holding the defining equation(s) of cls, -1 if none
    std::vector<size_t> compsWith(int cls) const;
    std::vector<bool> dependsOn(int target) const; // per class: transitively reads target (target itself included)
    size_t equationCount() const;
    std::string describe() const;
};

bool fromGt(const GtModel &gt, TM &m, std::string &problem);
void rebuildMath(TM &m);

// ---- generator extensions (applied to the base model before it is judged)
bool moveInitialValues(TM &m, Src &src); // put the initial value of a constant / state / guessed unknown on another instance
bool addNlaReaders(TM &m, Src &src); // x = f(u), y = g(x) for an NLA unknown u
// shapes found by independent exploration: 1 a variable that reads a rate (x = dv/dt) and an ODE using it, 2 a single
// unknown without guess solved from another NLA unknown / state (block-triangular) and a reader of it, 3 a sparse square
// NLA system with guesses (x+y, y+z, z+x), 4 a system mixing guessed and unguessed unknowns, 5 x = 2x - 3
enum Shape
{
    S_NONE = 0,
    S_RATE_READER,
    S_DOWNSTREAM_NLA,
    S_SPARSE_NLA,
    S_MIXED_GUESS_NLA,
    S_SELF_REFERENCE,
    S_COUNT
};
const char *shapeName(int s);
bool addShape(TM &m, int shape, Src &src);

// ---- metamorphic transformations
enum Transform
{
    T_PERMUTE_COMPONENTS = 0,
    T_PERMUTE_VARIABLES,
    T_PERMUTE_EQUATIONS, // also re-splits the <math> blocks
    T_REVERSE_CONNECTIONS, // direction of each connection, order of mappings and of connections
    T_SWAP_SIDES,
    T_RENAME_COMPONENTS,
    T_RENAME_UNITS,
    T_RENAME_VARIABLES,
    T_COMMENTS, // XML comments inside the math (before operators, inside ci / cn, between equations)
    T_COUNT
};
const char *transformName(int t);
// scheme for T_RENAME_VARIABLES: 0 uniform per class, 1 distinct per instance, 2 small shared pool (coincidences across
// classes), 3 permute the existing names within each component, 4 targeted: the members of a class outside its defining
// component carry a name that an unrelated variable of the defining component carries too
void applyTransform(TM &m, int t, Src &src, unsigned renameScheme);
void renameVariablesUniform(TM &m);

// ---- constraint variants
enum Variant
{
    V_DROP_EQUATION = 0,
    V_DROP_CONSTANT_INITIAL,
    V_STATE_WITHOUT_INITIAL,
    V_SECOND_DEFINITION,
    V_UNSUITABLE,
    V_SECOND_VOI,
    V_INITIALISED_VOI,
    V_SECOND_ORDER,
    V_UNUSED_VARIABLE,
    V_EXTRA_NLA_EQUATION,
    V_COUPLED_RATES, // dx/dt + dy/dt = 1, dx/dt - dy/dt = 0: no equation can be solved for one rate
    V_COUNT
};
const char *variantName(int v);
// Applies variant v; returns false when the model offers no place where the variant's outcome is unambiguous.
bool applyVariant(TM &m, int v, Src &src, std::string &expectedType, std::string &what);

// ---- observation of one analysis
struct Obs
{
    std::string type;
    bool valid = false;
    size_t errors = 0, warnings = 0;
    std::string issues;
    size_t nStates = 0, nVars = 0, nEqs = 0;
    std::vector<std::string> role; // per class, "" = absent
    std::vector<std::string> eqKinds; // per class: sorted types of the equations computing it
    std::vector<int> primary; // per class: origin id of AnalyserVariable::variable(), -1 = absent
    std::vector<int> systemOf; // per class: smallest class id among the unknowns of its NLA system, -1 = not NLA-solved
    std::multiset<std::string> eqTypes;
    bool rolesOk = false; // role / eqKinds / primary / systemOf are filled
    std::string sig, msg; // first failure of the monitor / harness self-checks / well-formedness ("" = none)
    libcellml::ModelPtr model; // kept alive so that the analyser model can be dumped when a failure is reported
    libcellml::AnalyserModelPtr am;
    std::string dump() const;
};
void analyse(const TM &m, Obs &o);
// Ground-truth oracle for a model expected to be valid. Returns "" or a signature (detail in msg).
std::string checkTruth(const TM &m, const Obs &o, std::string &msg);
// Metamorphic oracle. Returns "" or the signature tail.
std::string compareObs(const TM &m, const Obs &base, const Obs &variant, std::string &msg, bool &primaryChanged);

} // namespace c05
} // namespace vp

// Ground-truth models: valid models generated together with the role and the numeric value of every variable,
// used by C03 (values of generated code), C05 (classification), C06 (flattening), C17 (declared structure), C20 (externals).
#pragma once
#include <map>
#include <string>
#include <vector>

#include "gen.h"
#include "spec.h"

namespace vp {

enum class GtRole
{
    VOI,
    CONSTANT, // initial value, no equation
    COMPUTED_CONSTANT, // x = f(constants)
    ALGEBRAIC, // x = f(..., something that varies)
    STATE, // initial value + ODE
    NLA, // unknown of an implicit system
};
const char *gtRoleName(GtRole r);

struct GtInstance
{
    int comp = 0; // index into spec.comps
    int var = 0; // index into spec.comps[comp].vars
    std::string units;
    double log10scale = 0.0; // SI size of one of these units
};

struct GtClass
{
    GtRole role = GtRole::CONSTANT;
    std::vector<GtInstance> inst; // inst[0] is the home instance (equations are written in its component)
    bool varying = false; // value depends on the VOI or on a state
    double value[2] = {0, 0}; // in home units, at evaluation points 0 and 1 (STATE: point 0 = initial value)
    double rate[2] = {0, 0}; // STATE: d(home)/d(local voi of the home component)
    Expr rhs; // defining expression over the variable names of the home component
    std::vector<int> deps; // classes the rhs reads
    int nlaSystem = -1;
    int voiLocalInst = -1; // STATE: index into classes[voi].inst of the voi instance the ODE is written against
    int initialisedBy = -1; // STATE: class of the constant whose (same-units) instance initialises it, or -1
};

struct GtNlaSystem
{
    int comp = 0;
    std::vector<int> unknowns; // class indices
    std::vector<std::pair<Expr, Expr>> equations;
};

struct GtOptions
{
    int maxComps = 4;
    int maxClasses = 9;
    bool allowOde = true;
    bool allowNla = true;
    bool scaledUnits = true;
    int exprDepth = 4;
    bool smallExprs = false; // C05: tiny expressions
    bool avoidKnownBadShapes = true; // exclude generator parenthesisation findings by construction (counted)
    // NLA equations are written F(u) = F(W); with this option two thirds of them (chosen by a hash of the equation, no tape
    // read, so that tapes decode alike with and without it) become  k = (F(u) - F(W)) + k  with k a known variable as seen
    // in the system's component (possibly in scaled units): a bare known variable as one side of an implicit equation.
    bool nlaBareKnown = false;
    // ---- C03 extensions after the independent exploration (all default off; when off nothing below reads the tape or changes a
    // model, so the saved tapes of C05 / C06 / C17 / C20 decode as before). Decisions are derived from content hashes; only the
    // creation of the extra instances they need reads the tape (after the NLA section, before interfaces / math blocks).
    // NLA systems of several equations: equation i becomes  F_i(u) - g_i = 0  /  F_i(u) = g_i + 0  with a new variable
    // g_i = F_i(W) of its own, so that each equation of the system reads a variable that no sibling reads.
    bool nlaSparseReads = false;
    // Variables computed from the unknowns of an NLA system (role ALGEBRAIC in the truth: judged after the compute calls only).
    bool nlaDependents = false;
    // r = dx/dt (+ literal) in a component that sees the state and the variable of integration through (mostly scaled) instances.
    bool rateReaders = false;
    // Constants (chains of them, declared before or after what they name) and states whose initial value is the NAME of a
    // constant's instance, that instance being mostly scaled against the constant's home variable.
    bool initByName = false;
    // Numeric initial values respelled without changing their value: upper-case E, signed / zero exponents, trailing dot,
    // leading zero, shifted mantissa.
    bool exoticReals = false;
    // Unary plus around sub-expressions, in particular around a piecewise that is the value / the condition of a piece.
    bool unaryPlus = false;
    std::vector<Op> operatorPool; // empty = all
};

struct GtModel
{
    ModelSpec spec;
    std::vector<GtClass> classes;
    std::vector<GtNlaSystem> nla;
    int voi = -1;
    double voiValue[2] = {0, 0}; // in home units of the voi class
    std::string expectedType; // "ode", "dae", "nla", "algebraic"
    std::map<std::string, long> counters; // repairs, exclusions
    size_t equationCount = 0;
    std::vector<std::string> operatorsUsed;

    // value of an instance (local units) at an evaluation point
    double instanceValue(int cls, int inst, int point) const;
    // find the class/instance of a variable given component name and variable name; returns false if unknown
    bool findInstance(const std::string &compName, const std::string &varName, int &cls, int &inst) const;
    std::string describe() const;
};

GtModel genGroundTruthModel(Src &src, const GtOptions &opt);

// A value-safe expression over the given variables (name -> value): every intermediate keeps a margin from poles,
// branch points, integer boundaries and equality, by construction or by repair (counted in *repairs).
Expr genValueExpr(Src &src, const std::vector<std::pair<std::string, double>> &vars, int depth, const GtOptions &opt, long *repairs, std::vector<std::string> *opsUsed);
bool isKnownBadShape(const Expr &parent, size_t childIndex); // generator parenthesisation findings excluded by construction

} // namespace vp

// C05: one analysis observed through public accessors only: well-formedness of the AnalyserModel, ground-truth oracle,
// metamorphic comparison.
#include <algorithm>
#include <functional>
#include <map>
#include <sstream>

#include "c05_model.h"
#include "c12_amdump.h"

using namespace libcellml;

namespace vp {
namespace c05 {

namespace {

void collectVariables(const ComponentPtr &c, std::vector<VariablePtr> &out)
{
    for (size_t i = 0; i < c->variableCount(); ++i) {
        out.push_back(c->variable(i));
    }
    for (size_t i = 0; i < c->componentCount(); ++i) {
        collectVariables(c->component(i), out);
    }
}

void collectCi(const AnalyserEquationAstPtr &a, std::vector<VariablePtr> &out, int depth)
{
    if (a == nullptr || depth > 2000) {
        return;
    }
    if (a->type() == AnalyserEquationAst::Type::CI && a->variable() != nullptr) {
        out.push_back(a->variable());
    }
    collectCi(a->leftChild(), out, depth + 1);
    collectCi(a->rightChild(), out, depth + 1);
}

void collectRates(const AnalyserEquationAstPtr &a, std::vector<VariablePtr> &out, int depth)
{
    if (a == nullptr || depth > 2000) {
        return;
    }
    if (a->type() == AnalyserEquationAst::Type::DIFF && a->rightChild() != nullptr && a->rightChild()->variable() != nullptr) {
        out.push_back(a->rightChild()->variable());
    }
    collectRates(a->leftChild(), out, depth + 1);
    collectRates(a->rightChild(), out, depth + 1);
}

std::string varName(const VariablePtr &v)
{
    if (v == nullptr) {
        return "<null>";
    }
    auto comp = std::dynamic_pointer_cast<Component>(v->parent());
    return (comp != nullptr ? comp->name() : std::string("<orphan>")) + "." + v->name();
}

// transitively reads an NLA unknown that carries an initial guess (localisation token for a known finding)
bool readsGuessedUnknown(const TM &m, size_t k, int depth = 0)
{
    if (depth > 64) {
        return false;
    }
    for (int d : m.classes[k].deps) {
        const TClass &t = m.classes[static_cast<size_t>(d)];
        if ((t.role == GtRole::NLA && t.guess) || readsGuessedUnknown(m, static_cast<size_t>(d), depth + 1)) {
            return true;
        }
    }
    return false;
}

struct Fail
{
    std::string &sig, &msg;
    bool operator()(const std::string &s, const std::string &m)
    {
        if (sig.empty()) {
            sig = s;
            msg = m;
        }
        return false;
    }
};

// Well-formedness of a valid AnalyserModel; classes of connected variables come from the harness's own reachability.
// Fills the per-(harness-)class observations. Returns false at the first problem.
bool wellFormed(const AnalyserModelPtr &am, const ModelPtr &model, std::map<Variable *, int> &hclass, size_t &nClasses, std::vector<AnalyserVariablePtr> &avOfClass, bool &placed, Fail fail)
{
    placed = false;
    const size_t none = static_cast<size_t>(-1);
    // ---- classes by reachability over Variable::equivalentVariable
    std::vector<VariablePtr> all;
    for (size_t i = 0; i < model->componentCount(); ++i) {
        collectVariables(model->component(i), all);
    }
    nClasses = 0;
    for (const auto &v : all) {
        if (hclass.count(v.get()) != 0) {
            continue;
        }
        int id = static_cast<int>(nClasses++);
        std::vector<VariablePtr> todo = {v};
        hclass[v.get()] = id;
        while (!todo.empty()) {
            auto x = todo.back();
            todo.pop_back();
            for (size_t i = 0; i < x->equivalentVariableCount(); ++i) {
                auto y = x->equivalentVariable(i);
                if (y != nullptr && hclass.count(y.get()) == 0) {
                    hclass[y.get()] = id;
                    todo.push_back(y);
                }
            }
        }
    }
    avOfClass.assign(nClasses, nullptr);
    // ---- every class exactly once among voi, states, variables; index() equals position
    auto place = [&](const AnalyserVariablePtr &av, const std::string &where, size_t pos) -> bool {
        if (av == nullptr) {
            return fail("C05.wf|null-variable|" + where, where + "(" + std::to_string(pos) + ") is null below the count");
        }
        auto v = av->variable();
        if (v == nullptr) {
            return fail("C05.wf|variable-without-variable|" + where, where + "(" + std::to_string(pos) + ")->variable() is null");
        }
        auto it = hclass.find(v.get());
        if (it == hclass.end()) {
            return fail("C05.wf|foreign-variable|" + where, where + "(" + std::to_string(pos) + ") refers to " + varName(v) + ", which is not a variable of the analysed model");
        }
        if (avOfClass[static_cast<size_t>(it->second)] != nullptr) {
            return fail("C05.wf|class-twice|" + where, "the class of connected variables containing " + varName(v) + " appears more than once among voi, states and variables (also as " + varName(avOfClass[static_cast<size_t>(it->second)]->variable()) + ")");
        }
        avOfClass[static_cast<size_t>(it->second)] = av;
        if (av->index() != pos) {
            return fail("C05.wf|index|" + where, where + "(" + std::to_string(pos) + ")->index() is " + std::to_string(av->index()) + " for " + varName(v));
        }
        return true;
    };
    if (am->voi() != nullptr) {
        if (!place(am->voi(), "voi", 0)) {
            return false;
        }
        if (am->voi()->type() != AnalyserVariable::Type::VARIABLE_OF_INTEGRATION) {
            return fail("C05.wf|array-type|voi", "voi() has type " + AnalyserVariable::typeAsString(am->voi()->type()));
        }
    }
    auto states = am->states();
    auto variables = am->variables();
    auto equations = am->equations();
    if (states.size() != am->stateCount() || variables.size() != am->variableCount() || equations.size() != am->equationCount()) {
        return fail("C05.wf|counts", "states()/variables()/equations() sizes differ from the counts");
    }
    for (size_t i = 0; i < states.size(); ++i) {
        if (states[i] != am->state(i)) {
            return fail("C05.wf|accessor|state", "state(i) differs from states()[i]");
        }
        if (!place(states[i], "state", i)) {
            return false;
        }
        if (states[i]->type() != AnalyserVariable::Type::STATE) {
            return fail("C05.wf|array-type|state", "state(" + std::to_string(i) + ") has type " + AnalyserVariable::typeAsString(states[i]->type()));
        }
    }
    for (size_t i = 0; i < variables.size(); ++i) {
        if (variables[i] != am->variable(i)) {
            return fail("C05.wf|accessor|variable", "variable(i) differs from variables()[i]");
        }
        if (!place(variables[i], "variable", i)) {
            return false;
        }
        auto t = variables[i]->type();
        if (t == AnalyserVariable::Type::STATE || t == AnalyserVariable::Type::VARIABLE_OF_INTEGRATION) {
            return fail("C05.wf|array-type|variable", "variable(" + std::to_string(i) + ") has type " + AnalyserVariable::typeAsString(t));
        }
    }
    for (const auto &v : all) {
        if (avOfClass[static_cast<size_t>(hclass[v.get()])] == nullptr) {
            return fail("C05.wf|class-missing", "the class of connected variables containing " + varName(v) + " appears nowhere among voi, states and variables of a valid analyser model");
        }
    }
    if ((am->voi() == nullptr) != states.empty()) {
        // a model with states has a voi and vice versa (a voi exists only through an ODE)
        return fail("C05.wf|voi-vs-states", std::string("voi() is ") + (am->voi() == nullptr ? "null" : "set") + " but there are " + std::to_string(states.size()) + " states");
    }
    placed = true; // every class has its analyser variable: roles can be read off even if something below is wrong
    // ---- equations
    std::map<AnalyserEquation *, size_t> eqPos;
    for (size_t i = 0; i < equations.size(); ++i) {
        if (equations[i] == nullptr) {
            return fail("C05.wf|null-equation", "equation(" + std::to_string(i) + ") is null");
        }
        if (equations[i] != am->equation(i)) {
            return fail("C05.wf|accessor|equation", "equation(i) differs from equations()[i]");
        }
        if (!eqPos.emplace(equations[i].get(), i).second) {
            return fail("C05.wf|equation-twice", "equation " + std::to_string(i) + " is listed twice");
        }
    }
    std::map<AnalyserVariable *, std::string> avWhere;
    if (am->voi() != nullptr) {
        avWhere[am->voi().get()] = "voi";
    }
    for (size_t i = 0; i < states.size(); ++i) {
        avWhere[states[i].get()] = "state " + std::to_string(i);
    }
    for (size_t i = 0; i < variables.size(); ++i) {
        avWhere[variables[i].get()] = "variable " + std::to_string(i);
    }
    // v in eq.variables() <=> eq in v.equations()
    std::vector<AnalyserVariablePtr> allAv(states.begin(), states.end());
    allAv.insert(allAv.end(), variables.begin(), variables.end());
    for (size_t i = 0; i < equations.size(); ++i) {
        const auto &e = equations[i];
        if (e->variableCount() != e->variables().size()) {
            return fail("C05.wf|counts|equation-variables", "variableCount() differs from variables().size()");
        }
        if (e->variableCount() == 0) {
            return fail("C05.wf|equation-computes-nothing|" + AnalyserEquation::typeAsString(e->type()), "equation " + std::to_string(i) + " computes no variable");
        }
        for (const auto &v : e->variables()) {
            if (v == nullptr || avWhere.count(v.get()) == 0) {
                return fail("C05.wf|equation-variable-foreign", "equation " + std::to_string(i) + " computes something that is neither a state nor a variable of the model");
            }
            auto ve = v->equations();
            if (std::find(ve.begin(), ve.end(), e) == ve.end()) {
                return fail("C05.wf|equation-variable-asymmetry|eq-lists-var", "equation " + std::to_string(i) + " lists " + avWhere[v.get()] + " (" + varName(v->variable()) + ") among the variables it computes, but is not among that variable's equations");
            }
        }
    }
    for (const auto &v : allAv) {
        auto ve = v->equations();
        if (ve.size() != v->equationCount()) {
            return fail("C05.wf|counts|variable-equations", "equationCount() differs from equations().size()");
        }
        bool isConstant = v->type() == AnalyserVariable::Type::CONSTANT;
        size_t nla = 0, direct = 0;
        size_t sys = none;
        bool oneSystem = true;
        for (size_t k = 0; k < ve.size(); ++k) {
            if (ve[k] == nullptr) {
                if (isConstant) {
                    continue; // tolerated: the placeholder equation of a true constant has expired
                }
                return fail("C05.wf|null-variable-equation|" + AnalyserVariable::typeAsString(v->type()), avWhere[v.get()] + " (" + varName(v->variable()) + ") has a null equation");
            }
            if (eqPos.count(ve[k].get()) == 0) {
                return fail("C05.wf|variable-equation-foreign", avWhere[v.get()] + " lists an equation that is not among the model's equations");
            }
            auto evs = ve[k]->variables();
            if (std::find(evs.begin(), evs.end(), v) == evs.end()) {
                return fail("C05.wf|equation-variable-asymmetry|var-lists-eq", avWhere[v.get()] + " (" + varName(v->variable()) + ") lists equation " + std::to_string(eqPos[ve[k].get()]) + ", which does not list it among the variables it computes");
            }
            if (ve[k]->type() == AnalyserEquation::Type::NLA) {
                ++nla;
                if (sys == none) {
                    sys = ve[k]->nlaSystemIndex();
                } else if (sys != ve[k]->nlaSystemIndex()) {
                    oneSystem = false;
                }
            } else {
                ++direct;
            }
        }
        if (isConstant) {
            if (nla + direct != 0) {
                return fail("C05.wf|constant-with-equation", avWhere[v.get()] + " (" + varName(v->variable()) + ") is a constant but is computed by an equation");
            }
            continue;
        }
        std::string t = AnalyserVariable::typeAsString(v->type());
        if (nla + direct == 0) {
            return fail("C05.wf|computed-by-nothing|" + t, avWhere[v.get()] + " (" + varName(v->variable()) + ", " + t + ") has no equation");
        }
        if (!((direct == 1 && nla == 0) || (direct == 0 && oneSystem))) {
            return fail("C05.wf|computed-more-than-once|" + t, avWhere[v.get()] + " (" + varName(v->variable()) + ", " + t + ") is computed by " + std::to_string(direct) + " direct and " + std::to_string(nla) + " NLA equations" + (oneSystem ? "" : " of different NLA systems"));
        }
    }
    // equation type against the type of what it computes
    for (size_t i = 0; i < equations.size(); ++i) {
        const auto &e = equations[i];
        auto et = e->type();
        std::string ets = AnalyserEquation::typeAsString(et);
        if (et == AnalyserEquation::Type::NLA) {
            if (e->nlaSystemIndex() == none) {
                return fail("C05.wf|nla-without-system", "NLA equation " + std::to_string(i) + " has no NLA system index");
            }
            continue;
        }
        if (et == AnalyserEquation::Type::EXTERNAL) {
            return fail("C05.wf|external-equation", "equation " + std::to_string(i) + " is external though no external variable was declared");
        }
        if (e->variableCount() != 1) {
            return fail("C05.wf|direct-equation-computes-several|" + ets, "equation " + std::to_string(i) + " of type " + ets + " computes " + std::to_string(e->variableCount()) + " variables");
        }
        auto vt = e->variable(0)->type();
        bool ok = (et == AnalyserEquation::Type::ODE && vt == AnalyserVariable::Type::STATE)
                  || ((et == AnalyserEquation::Type::TRUE_CONSTANT || et == AnalyserEquation::Type::VARIABLE_BASED_CONSTANT) && vt == AnalyserVariable::Type::COMPUTED_CONSTANT)
                  || (et == AnalyserEquation::Type::ALGEBRAIC && vt == AnalyserVariable::Type::ALGEBRAIC);
        if (!ok) {
            return fail("C05.wf|equation-vs-variable-type|" + ets + "-computes-" + AnalyserVariable::typeAsString(vt), "equation " + std::to_string(i) + " of type " + ets + " computes " + varName(e->variable(0)->variable()) + " of type " + AnalyserVariable::typeAsString(vt));
        }
        if (e->nlaSiblingCount() != 0) {
            return fail("C05.wf|direct-equation-with-siblings|" + ets, "equation " + std::to_string(i) + " of type " + ets + " has NLA siblings");
        }
    }
    // ---- NLA systems: as many equations as unknowns, symmetric sibling lists inside one system
    std::map<size_t, std::vector<size_t>> systems;
    for (size_t i = 0; i < equations.size(); ++i) {
        if (equations[i]->type() == AnalyserEquation::Type::NLA) {
            systems[equations[i]->nlaSystemIndex()].push_back(i);
        }
    }
    for (const auto &s : systems) {
        std::set<AnalyserVariable *> unknowns;
        for (size_t i : s.second) {
            for (const auto &v : equations[i]->variables()) {
                unknowns.insert(v.get());
            }
            auto sib = equations[i]->nlaSiblings();
            if (sib.size() != equations[i]->nlaSiblingCount()) {
                return fail("C05.wf|counts|siblings", "nlaSiblingCount() differs from nlaSiblings().size()");
            }
            for (const auto &o : sib) {
                if (o == nullptr || eqPos.count(o.get()) == 0) {
                    return fail("C05.wf|sibling-foreign", "NLA equation " + std::to_string(i) + " has a sibling that is not an equation of the model");
                }
                if (o == equations[i]) {
                    return fail("C05.wf|sibling-self", "NLA equation " + std::to_string(i) + " is its own sibling");
                }
                if (o->type() != AnalyserEquation::Type::NLA || o->nlaSystemIndex() != s.first) {
                    return fail("C05.wf|sibling-other-system", "NLA equation " + std::to_string(i) + " of system " + std::to_string(s.first) + " has a sibling outside that system");
                }
                auto back = o->nlaSiblings();
                if (std::find(back.begin(), back.end(), equations[i]) == back.end()) {
                    return fail("C05.wf|sibling-asymmetry", "NLA equation " + std::to_string(i) + " lists equation " + std::to_string(eqPos[o.get()]) + " as a sibling but not the other way round");
                }
            }
        }
        if (unknowns.size() != s.second.size()) {
            return fail("C05.wf|nla-system-not-square", "NLA system " + std::to_string(s.first) + " has " + std::to_string(s.second.size()) + " equations for " + std::to_string(unknowns.size()) + " unknowns");
        }
    }
    // ---- dependencies: the equations computing every non-constant variable an equation reads
    for (size_t i = 0; i < equations.size(); ++i) {
        const auto &e = equations[i];
        auto deps = e->dependencies();
        if (deps.size() != e->dependencyCount()) {
            return fail("C05.wf|counts|dependencies", "dependencyCount() differs from dependencies().size()");
        }
        for (const auto &d : deps) {
            if (d == nullptr || eqPos.count(d.get()) == 0) {
                return fail("C05.wf|dependency-foreign", "equation " + std::to_string(i) + " depends on something that is not an equation of the model");
            }
            if (d == e) {
                // localisation token of a known finding: what the equation computes is initialised through another variable
                bool elsewhere = false;
                for (const auto &v : e->variables()) {
                    elsewhere = elsewhere || (v != nullptr && v->initialisingVariable() != nullptr && v->initialisingVariable() != v->variable());
                }
                return fail("C05.wf|dependency-self|" + AnalyserEquation::typeAsString(e->type()) + (elsewhere ? "|initialised-elsewhere" : ""), "equation " + std::to_string(i) + " depends on itself");
            }
        }
        if (e->ast() == nullptr) {
            return fail("C05.wf|equation-without-ast|" + AnalyserEquation::typeAsString(e->type()), "equation " + std::to_string(i) + " has no AST");
        }
        std::vector<VariablePtr> read, rates;
        collectCi(e->ast(), read, 0);
        collectRates(e->ast(), rates, 0);
        auto own = e->variables();
        for (const auto &rv : read) {
            auto it = hclass.find(rv.get());
            if (it == hclass.end()) {
                return fail("C05.wf|ast-foreign-variable", "the AST of equation " + std::to_string(i) + " mentions " + varName(rv) + ", which is not a variable of the model");
            }
            auto av = avOfClass[static_cast<size_t>(it->second)];
            if (av == am->voi() || av->type() == AnalyserVariable::Type::CONSTANT || std::find(own.begin(), own.end(), av) != own.end()) {
                continue;
            }
            for (const auto &need : av->equations()) {
                if (need != nullptr && std::find(deps.begin(), deps.end(), need) == deps.end()) {
                    // localisation token of a known finding: the variable's primary variable is not the one carrying its initial value
                    bool elsewhere = av->initialisingVariable() != nullptr && av->initialisingVariable() != av->variable();
                    bool asRate = std::find(rates.begin(), rates.end(), rv) != rates.end();
                    return fail("C05.wf|dependency-missing|" + AnalyserEquation::typeAsString(e->type()) + "-reads-" + (asRate ? "rate-of-" : "") + AnalyserVariable::typeAsString(av->type()) + (elsewhere ? "|initialised-elsewhere" : ""),
                                "equation " + std::to_string(i) + " (" + AnalyserEquation::typeAsString(e->type()) + ") reads " + varName(rv) + " (" + AnalyserVariable::typeAsString(av->type()) + "), but equation " + std::to_string(eqPos[need.get()]) + ", which computes it, is not among its dependencies");
                }
            }
        }
    }
    // ---- directly solved equations can be ordered so that dependencies come first (a state is given, so reading it does not
    //      order an equation after the ODE)
    {
        std::vector<int> colour(equations.size(), 0);
        std::function<bool(size_t)> visit = [&](size_t i) -> bool {
            colour[i] = 1;
            std::vector<VariablePtr> rts;
            collectRates(equations[i]->ast(), rts, 0);
            for (const auto &d : equations[i]->dependencies()) {
                if (d->type() == AnalyserEquation::Type::NLA) {
                    continue;
                }
                if (d->type() == AnalyserEquation::Type::ODE) {
                    // reading a state does not order an equation after the ODE, reading its rate does
                    bool readsRate = false;
                    for (const auto &rv : rts) {
                        auto it = hclass.find(rv.get());
                        readsRate = readsRate || (it != hclass.end() && d->variableCount() == 1 && avOfClass[static_cast<size_t>(it->second)] == d->variable(0));
                    }
                    if (!readsRate) {
                        continue;
                    }
                }
                size_t j = eqPos[d.get()];
                if (colour[j] == 1) {
                    return false;
                }
                if (colour[j] == 0 && !visit(j)) {
                    return false;
                }
            }
            colour[i] = 2;
            return true;
        };
        for (size_t i = 0; i < equations.size(); ++i) {
            if (equations[i]->type() != AnalyserEquation::Type::NLA && colour[i] == 0 && !visit(i)) {
                return fail("C05.wf|dependency-cycle", "the dependencies of the directly solved equations contain a cycle through equation " + std::to_string(i));
            }
        }
    }
    return true;
}

} // namespace

std::string Obs::dump() const
{
    return am != nullptr ? dumpAnalyserModel(am) : std::string();
}

void analyse(const TM &m, Obs &o)
{
    o = Obs();
    Fail fail {o.sig, o.msg};
    Built b = buildApi(m.spec);
    auto analyser = Analyser::create();
    try {
        analyser->analyseModel(b.model);
    } catch (const std::exception &e) {
        // the rest of the case is still worth running: report and carry on
        o.type = "exception";
        fail(std::string("C05.exception|Analyser::analyseModel|") + e.what(), std::string("Analyser::analyseModel() let an exception escape: ") + e.what());
        o.role.assign(m.classes.size(), "");
        o.eqKinds.assign(m.classes.size(), "");
        o.primary.assign(m.classes.size(), -1);
        o.systemOf.assign(m.classes.size(), -1);
        return;
    }
    std::string lg = checkLogger(analyser);
    if (!lg.empty()) {
        fail("C15.monitor|Analyser|" + lg.substr(0, lg.find('|')), lg);
    }
    o.errors = analyser->errorCount();
    o.warnings = analyser->warningCount();
    for (size_t i = 0; i < analyser->issueCount() && i < 12; ++i) {
        auto is = analyser->issue(i);
        o.issues += std::string(is->level() == Issue::Level::ERROR ? "E " : (is->level() == Issue::Level::WARNING ? "W " : "M ")) + is->description() + "\n";
    }
    auto am = analyser->model();
    size_t ncls = m.classes.size();
    o.role.assign(ncls, "");
    o.eqKinds.assign(ncls, "");
    o.primary.assign(ncls, -1);
    o.systemOf.assign(ncls, -1);
    if (am == nullptr) {
        o.type = "null";
        fail("C05.wf|null-model", "Analyser::model() is null after analyseModel()");
        return;
    }
    o.type = AnalyserModel::typeAsString(am->type());
    o.valid = am->isValid();
    bool validType = o.type == "ode" || o.type == "dae" || o.type == "nla" || o.type == "algebraic";
    if (o.valid != validType) {
        fail("C05.wf|isValid-vs-type", "isValid() is " + std::to_string(o.valid) + " for type " + o.type);
    }
    o.nStates = am->stateCount();
    o.nVars = am->variableCount();
    o.nEqs = am->equationCount();
    if (!o.valid) {
        return;
    }
    o.model = b.model;
    o.am = am;
    std::map<Variable *, int> hclass;
    size_t nh = 0;
    std::vector<AnalyserVariablePtr> avOfH;
    bool placed = false;
    if (!wellFormed(am, b.model, hclass, nh, avOfH, placed, fail) && !placed) {
        return;
    }
    // the harness's reachability classes against the classes the model was constructed with
    std::map<int, int> h2t;
    std::map<Variable *, std::pair<size_t, size_t>> where;
    for (size_t ci = 0; ci < b.vars.size(); ++ci) {
        for (size_t v = 0; v < b.vars[ci].size(); ++v) {
            where[b.vars[ci][v].get()] = {ci, v};
            int t = m.classOf[ci][v];
            int h = hclass.count(b.vars[ci][v].get()) != 0 ? hclass[b.vars[ci][v].get()] : -1;
            if (h < 0) {
                fail("C05.harness|variable-not-reached", "a built variable is not part of the model tree");
                return;
            }
            auto it = h2t.find(h);
            if (it == h2t.end()) {
                h2t[h] = t;
            } else if (it->second != t) {
                fail("C05.harness|class-partition", "the connection graph of the built model does not match the constructed classes at " + m.spec.comps[ci].name + "." + m.spec.comps[ci].vars[v].name);
                return;
            }
        }
    }
    std::map<AnalyserVariable *, int> clsOfAv;
    for (size_t h = 0; h < nh; ++h) {
        int t = h2t.count(static_cast<int>(h)) != 0 ? h2t[static_cast<int>(h)] : -1;
        if (t < 0) {
            continue;
        }
        const auto &av = avOfH[h];
        size_t tk = static_cast<size_t>(t);
        if (!o.role[tk].empty()) {
            fail("C05.harness|class-partition", "two reachability classes map to constructed class " + std::to_string(t));
            return;
        }
        o.role[tk] = AnalyserVariable::typeAsString(av->type());
        clsOfAv[av.get()] = t;
        auto w = where.find(av->variable().get());
        o.primary[tk] = w != where.end() ? m.origin[w->second.first][w->second.second] : -1;
        std::vector<std::string> kinds;
        for (const auto &e : av->equations()) {
            if (e != nullptr) {
                kinds.push_back(AnalyserEquation::typeAsString(e->type()));
            }
        }
        std::sort(kinds.begin(), kinds.end());
        for (const auto &k : kinds) {
            o.eqKinds[tk] += (o.eqKinds[tk].empty() ? "" : "+") + k;
        }
    }
    std::map<size_t, int> sysLabel;
    for (const auto &e : am->equations()) {
        if (e == nullptr) {
            continue;
        }
        o.eqTypes.insert(AnalyserEquation::typeAsString(e->type()));
        if (e->type() == AnalyserEquation::Type::NLA) {
            for (const auto &v : e->variables()) {
                auto it = clsOfAv.find(v.get());
                if (it != clsOfAv.end()) {
                    auto sl = sysLabel.find(e->nlaSystemIndex());
                    if (sl == sysLabel.end() || it->second < sl->second) {
                        sysLabel[e->nlaSystemIndex()] = it->second;
                    }
                }
            }
        }
    }
    for (const auto &e : am->equations()) {
        if (e != nullptr && e->type() == AnalyserEquation::Type::NLA) {
            for (const auto &v : e->variables()) {
                auto it = clsOfAv.find(v.get());
                if (it != clsOfAv.end()) {
                    o.systemOf[static_cast<size_t>(it->second)] = sysLabel[e->nlaSystemIndex()];
                }
            }
        }
    }
    o.rolesOk = true;
}

std::string checkTruth(const TM &m, const Obs &o, std::string &msg)
{
    if (o.type != m.type) {
        msg = "the model is " + m.type + " by construction but the analyser reports " + o.type + "\n" + o.issues;
        return "C05.truth|type|" + m.type + "->" + o.type;
    }
    if (o.errors != 0) {
        msg = "a valid analyser model comes with error issues\n" + o.issues;
        return "C05.truth|valid-with-errors";
    }
    if (!o.rolesOk) {
        return ""; // the analyser model is too malformed to read roles off it; that has been reported as such
    }
    auto firstInstance = [&](size_t k) {
        for (size_t ci = 0; ci < m.classOf.size(); ++ci) {
            int v = m.instanceIn(static_cast<int>(k), ci);
            if (v >= 0) {
                return m.spec.comps[ci].name + "." + m.spec.comps[ci].vars[static_cast<size_t>(v)].name;
            }
        }
        return std::string("?");
    };
    for (size_t k = 0; k < m.classes.size(); ++k) {
        const TClass &t = m.classes[k];
        const std::string &got = o.role[k];
        std::string want;
        bool ok = false;
        switch (t.role) {
        case GtRole::VOI:
            want = "variable_of_integration";
            ok = got == want;
            break;
        case GtRole::CONSTANT:
            want = "constant";
            ok = got == want;
            break;
        case GtRole::STATE:
            want = "state";
            ok = got == want;
            break;
        case GtRole::COMPUTED_CONSTANT:
            want = "computed_constant";
            ok = got == want;
            break;
        case GtRole::ALGEBRAIC:
            want = t.loose ? "computed_constant|algebraic" : "algebraic";
            ok = got == "algebraic" || (t.loose && got == "computed_constant");
            break;
        case GtRole::NLA:
            want = t.loose ? "computed_constant|algebraic" : "algebraic";
            ok = got == "algebraic" || (t.loose && got == "computed_constant");
            break;
        }
        if (!ok) {
            msg = "class " + std::to_string(k) + " (" + firstInstance(k) + ") is " + gtRoleName(t.role) + " by construction, the analyser reports '" + got + "'";
            return "C05.truth|role|" + std::string(gtRoleName(t.role)) + "->" + (got.empty() ? "absent" : got) + (readsGuessedUnknown(m, k) ? "|reader-of-guessed-unknown" : "");
        }
        // kind of equation computing it
        const std::string &ek = o.eqKinds[k];
        bool kindOk = true;
        std::string wantKind;
        if (t.role == GtRole::STATE) {
            wantKind = "ode";
            kindOk = ek == "ode";
        } else if (t.role == GtRole::NLA) {
            wantKind = "nla only";
            kindOk = !ek.empty() && ek.find("ode") == std::string::npos && ek.find("algebraic") == std::string::npos && ek.find("constant") == std::string::npos;
        } else if (t.role == GtRole::COMPUTED_CONSTANT || t.role == GtRole::ALGEBRAIC) {
            wantKind = "one direct equation";
            kindOk = ek == "algebraic" || ek == "true_constant" || ek == "variable_based_constant";
            if (kindOk && t.role == GtRole::COMPUTED_CONSTANT) {
                wantKind = t.deps.empty() ? "true_constant" : "variable_based_constant";
                kindOk = ek == wantKind;
            }
        } else {
            kindOk = ek.empty();
            wantKind = "none";
        }
        if (!kindOk) {
            msg = "class " + std::to_string(k) + " (" + firstInstance(k) + ", " + gtRoleName(t.role) + ") should be computed by: " + wantKind + "; the analyser computes it by: " + (ek.empty() ? "nothing" : ek);
            return "C05.truth|equation-kind|" + std::string(gtRoleName(t.role)) + "->" + (ek.empty() ? "none" : ek) + (readsGuessedUnknown(m, k) ? "|reader-of-guessed-unknown" : "");
        }
    }
    // coherence of the reported roles with what each directly defined class reads
    for (size_t k = 0; k < m.classes.size(); ++k) {
        const TClass &t = m.classes[k];
        if (t.role == GtRole::NLA) {
            // whatever an NLA unknown is solved from: a computed constant cannot follow something that varies
            for (int d : t.deps) {
                const std::string &dr = o.role[static_cast<size_t>(d)];
                if (o.role[k] == "computed_constant" && (dr == "algebraic" || dr == "state" || dr == "variable_of_integration")) {
                    msg = "class " + std::to_string(k) + " (" + firstInstance(k) + ") is reported as a computed constant although the NLA system solved for it reads a variable reported as " + dr;
                    return "C05.truth|role-coherence|nla-computed_constant-reads-" + dr;
                }
            }
            continue;
        }
        if (t.role != GtRole::COMPUTED_CONSTANT && t.role != GtRole::ALGEBRAIC) {
            continue;
        }
        bool readsVarying = false;
        std::string which;
        for (int d : t.deps) {
            const std::string &dr = o.role[static_cast<size_t>(d)];
            if (dr == "algebraic" || dr == "state" || dr == "variable_of_integration") {
                readsVarying = true;
                which = dr;
            }
        }
        if (readsVarying && o.role[k] == "computed_constant") {
            msg = "class " + std::to_string(k) + " (" + firstInstance(k) + ") is reported as a computed constant although its defining equation reads a variable reported as " + which;
            return "C05.truth|role-coherence|computed_constant-reads-" + which + (readsGuessedUnknown(m, k) ? "|reader-of-guessed-unknown" : "");
        }
        // (what is computed from the unknown of an NLA system may be algebraic even if that unknown only follows constants: it is
        // not available before the system has been solved - the library's convention since d38edc2 - hence not for loose classes)
        if (!readsVarying && o.role[k] == "algebraic" && !t.loose) {
            msg = "class " + std::to_string(k) + " (" + firstInstance(k) + ") is reported as algebraic although its defining equation reads only constants and computed constants";
            return "C05.truth|role-coherence|algebraic-reads-constants-only";
        }
    }
    // NLA systems: the unknowns of one constructed system are solved together, different systems apart
    for (size_t s = 0; s < m.systems.size(); ++s) {
        int label = o.systemOf[static_cast<size_t>(m.systems[s][0])];
        for (int u : m.systems[s]) {
            if (o.systemOf[static_cast<size_t>(u)] != label || label < 0) {
                msg = "the unknowns of constructed NLA system " + std::to_string(s) + " are not solved by one NLA system";
                return "C05.truth|nla-system-split";
            }
        }
    }
    for (size_t k = 0; k < m.classes.size(); ++k) {
        if (m.classes[k].role != GtRole::NLA && o.systemOf[k] >= 0) {
            msg = "class " + std::to_string(k) + " (" + firstInstance(k) + ", " + gtRoleName(m.classes[k].role) + ") is solved by an NLA system";
            return "C05.truth|nla-system-extra-unknown|" + std::string(gtRoleName(m.classes[k].role));
        }
    }
    return "";
}

std::string compareObs(const TM &m, const Obs &a, const Obs &b, std::string &msg, bool &primaryChanged)
{
    primaryChanged = false;
    std::ostringstream o;
    if (a.type != b.type) {
        o << "type " << a.type << " became " << b.type << "\n"
          << b.issues;
        msg = o.str();
        return "type|" + a.type + "->" + b.type;
    }
    if (a.valid != b.valid) {
        msg = "validity changed";
        return "validity";
    }
    if (!a.valid) {
        return "";
    }
    if (a.nStates != b.nStates || a.nVars != b.nVars) {
        o << "state/variable counts " << a.nStates << "/" << a.nVars << " became " << b.nStates << "/" << b.nVars;
        msg = o.str();
        return "counts";
    }
    if (!a.rolesOk || !b.rolesOk) {
        return "";
    }
    for (size_t k = 0; k < m.classes.size(); ++k) {
        if (a.role[k] != b.role[k]) {
            o << "class " << k << " (" << gtRoleName(m.classes[k].role) << " by construction) was reported as " << a.role[k] << " and is now reported as " << b.role[k];
            msg = o.str();
            return "role|" + a.role[k] + "->" + b.role[k] + (readsGuessedUnknown(m, k) ? "|reader-of-guessed-unknown" : "");
        }
    }
    for (size_t k = 0; k < m.classes.size(); ++k) {
        if (a.eqKinds[k] != b.eqKinds[k]) {
            o << "class " << k << " (" << gtRoleName(m.classes[k].role) << " by construction) was computed by [" << a.eqKinds[k] << "] and is now computed by [" << b.eqKinds[k] << "]";
            msg = o.str();
            return "equation-kind|" + a.eqKinds[k] + "->" + b.eqKinds[k] + (readsGuessedUnknown(m, k) ? "|reader-of-guessed-unknown" : "");
        }
    }
    if (a.eqTypes != b.eqTypes) {
        msg = "the multiset of equation types changed";
        return "equation-types";
    }
    if (a.systemOf != b.systemOf) {
        msg = "the grouping of unknowns into NLA systems changed";
        return "nla-systems";
    }
    primaryChanged = a.primary != b.primary;
    return "";
}

} // namespace c05
} // namespace vp

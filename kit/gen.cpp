#include "gen.h"

#include <algorithm>
#include <cmath>
#include <functional>

namespace vp {

// ------------------------------------------------------------------------------------------------ units reference

namespace {

struct Std
{
    const char *name;
    double log10scale;
    std::vector<std::pair<const char *, double>> base;
};

// Typed in from the SI definitions referenced by the CellML 2.0 specification (table of built-in units).
const std::vector<Std> &stdTable()
{
    static const std::vector<Std> t = {
        {"ampere", 0, {{"ampere", 1}}},
        {"becquerel", 0, {{"second", -1}}},
        {"candela", 0, {{"candela", 1}}},
        {"coulomb", 0, {{"ampere", 1}, {"second", 1}}},
        {"dimensionless", 0, {}},
        {"farad", 0, {{"ampere", 2}, {"kilogram", -1}, {"metre", -2}, {"second", 4}}},
        {"gram", -3, {{"kilogram", 1}}},
        {"gray", 0, {{"metre", 2}, {"second", -2}}},
        {"henry", 0, {{"ampere", -2}, {"kilogram", 1}, {"metre", 2}, {"second", -2}}},
        {"hertz", 0, {{"second", -1}}},
        {"joule", 0, {{"kilogram", 1}, {"metre", 2}, {"second", -2}}},
        {"katal", 0, {{"mole", 1}, {"second", -1}}},
        {"kelvin", 0, {{"kelvin", 1}}},
        {"kilogram", 0, {{"kilogram", 1}}},
        {"litre", -3, {{"metre", 3}}},
        {"lumen", 0, {{"candela", 1}}},
        {"lux", 0, {{"candela", 1}, {"metre", -2}}},
        {"metre", 0, {{"metre", 1}}},
        {"mole", 0, {{"mole", 1}}},
        {"newton", 0, {{"kilogram", 1}, {"metre", 1}, {"second", -2}}},
        {"ohm", 0, {{"ampere", -2}, {"kilogram", 1}, {"metre", 2}, {"second", -3}}},
        {"pascal", 0, {{"kilogram", 1}, {"metre", -1}, {"second", -2}}},
        {"radian", 0, {}},
        {"second", 0, {{"second", 1}}},
        {"siemens", 0, {{"ampere", 2}, {"kilogram", -1}, {"metre", -2}, {"second", 3}}},
        {"sievert", 0, {{"metre", 2}, {"second", -2}}},
        {"steradian", 0, {}},
        {"tesla", 0, {{"ampere", -1}, {"kilogram", 1}, {"second", -2}}},
        {"volt", 0, {{"ampere", -1}, {"kilogram", 1}, {"metre", 2}, {"second", -3}}},
        {"watt", 0, {{"kilogram", 1}, {"metre", 2}, {"second", -3}}},
        {"weber", 0, {{"ampere", -1}, {"kilogram", 1}, {"metre", 2}, {"second", -2}}},
    };
    return t;
}

} // namespace

const std::vector<std::string> &standardUnitNames()
{
    static std::vector<std::string> n;
    if (n.empty()) {
        for (const auto &s : stdTable()) {
            n.emplace_back(s.name);
        }
    }
    return n;
}

bool isStandardUnit(const std::string &name)
{
    for (const auto &s : stdTable()) {
        if (name == s.name) {
            return true;
        }
    }
    return false;
}

const std::vector<std::pair<std::string, int>> &namedPrefixes()
{
    static const std::vector<std::pair<std::string, int>> p = {
        {"yotta", 24}, {"zetta", 21}, {"exa", 18}, {"peta", 15}, {"tera", 12}, {"giga", 9}, {"mega", 6}, {"kilo", 3}, {"hecto", 2}, {"deca", 1},
        {"deci", -1}, {"centi", -2}, {"milli", -3}, {"micro", -6}, {"nano", -9}, {"pico", -12}, {"femto", -15}, {"atto", -18}, {"zepto", -21}, {"yocto", -24}};
    return p;
}

int prefixValue(const std::string &prefix, bool *ok)
{
    if (ok != nullptr) {
        *ok = true;
    }
    if (prefix.empty()) {
        return 0;
    }
    for (const auto &p : namedPrefixes()) {
        if (p.first == prefix) {
            return p.second;
        }
    }
    size_t i = 0;
    if (prefix[0] == '+' || prefix[0] == '-') {
        i = 1;
    }
    bool digits = i < prefix.size();
    for (size_t k = i; k < prefix.size(); ++k) {
        digits = digits && prefix[k] >= '0' && prefix[k] <= '9';
    }
    if (!digits || prefix.size() > 9) {
        if (ok != nullptr) {
            *ok = false;
        }
        return 0;
    }
    return atoi(prefix.c_str());
}

UnitsRed reduceUnits(const std::string &name, const UnitsLookup &lookup, int depth)
{
    UnitsRed r;
    if (depth > 64) {
        r.defined = false;
        return r;
    }
    const UnitsSpec *u = lookup(name);
    if (u == nullptr) {
        for (const auto &s : stdTable()) {
            if (name == s.name) {
                r.log10scale = s.log10scale;
                for (const auto &b : s.base) {
                    r.base[b.first] = b.second;
                }
                return r;
            }
        }
        r.defined = false;
        return r;
    }
    if (u->import >= 0) {
        r.defined = false; // callers that resolve imports supply a lookup that returns the imported definition instead
        return r;
    }
    if (u->units.empty()) {
        r.base[u->name] = 1.0; // user base unit
        return r;
    }
    for (const auto &c : u->units) {
        UnitsRed k = reduceUnits(c.ref, lookup, depth + 1);
        if (!k.defined) {
            r.defined = false;
            return r;
        }
        bool pok = true;
        int p = prefixValue(c.prefix, &pok);
        if (!pok) {
            r.defined = false;
            return r;
        }
        // one child denotes  multiplier * (10^prefix * ref)^exponent
        r.log10scale += std::log10(c.multiplier) + c.exponent * (p + k.log10scale);
        for (const auto &b : k.base) {
            r.base[b.first] += b.second * c.exponent;
        }
        bool carriesScale = p != 0 || c.multiplier != 1.0 || k.log10scale != 0.0;
        if ((c.exponent != 1.0 && carriesScale) || !k.exp1Regime) {
            r.exp1Regime = false;
        }
    }
    for (auto it = r.base.begin(); it != r.base.end();) {
        if (it->second == 0.0) {
            it = r.base.erase(it);
        } else {
            ++it;
        }
    }
    return r;
}

UnitsRed reduceUnits(const ModelSpec &spec, const std::string &name)
{
    UnitsLookup lk = [&spec](const std::string &n) -> const UnitsSpec * {
        for (const auto &u : spec.units) {
            if (u.name == n) {
                return &u;
            }
        }
        return nullptr;
    };
    return reduceUnits(name, lk);
}

bool sameBase(const UnitsRed &a, const UnitsRed &b)
{
    return a.defined && b.defined && a.base == b.base;
}

// ------------------------------------------------------------------------------------------------ identifiers

std::string genIdent(Src &src, std::set<std::string> &used, bool hostile)
{
    static const std::vector<std::string> stems = {"a", "b", "x", "y", "V", "t", "i_Na", "alpha_1", "_k", "Cm", "time", "E_rev", "n", "q0", "Z9_", "gate", "w", "u2"};
    static const std::vector<std::string> hostileStems = {"a&b", "x<y", "q\"r", "it's", "p>q", "\xC2\xB5m", "\xE6\x97\xA5\xE6\x9C\xAC", "\xF0\x9F\x98\x80", "a b", "1st", "m?a=1&b=2", "]]>", "&amp;", "-", "e.g."};
    std::string s = hostile && src.flip(50) ? src.pick(hostileStems) : src.pick(stems);
    std::string c = s;
    int n = 0;
    while (used.count(c) != 0 || isStandardUnit(c)) {
        c = s + "_" + std::to_string(++n);
    }
    used.insert(c);
    return c;
}

std::string genXmlId(Src &src, std::set<std::string> &used, bool hostile)
{
    static const std::vector<std::string> stems = {"id", "b4da55", "_x", "n-1", "a.b", "ID", "k_", "b4da56", "b4da5a", "\xC3\xA9t\xC3\xA9"};
    static const std::vector<std::string> hostileStems = {"i&d", "i<d", "i\"d", "i'd", "9id", "i d", ""};
    std::string s = hostile && src.flip(40) ? src.pick(hostileStems) : src.pick(stems);
    if (s.empty()) {
        s = "&";
    }
    std::string c = s;
    int n = 0;
    while (used.count(c) != 0) {
        c = s + "_" + std::to_string(++n);
    }
    used.insert(c);
    return c;
}

// ------------------------------------------------------------------------------------------------ expressions

static Expr genLeaf(Src &src, const std::vector<std::string> &vars, const std::vector<std::string> &unitsNames)
{
    unsigned k = static_cast<unsigned>(src.below(10));
    if (!vars.empty() && k < 5) {
        return Expr::ci(src.pick(vars));
    }
    if (k == 9) {
        static const std::vector<Op> consts = {Op::PI, Op::E, Op::TRUE_, Op::FALSE_, Op::INF, Op::NAN_};
        return Expr::make(src.pick(consts), {});
    }
    static const std::vector<std::string> nums = {"1", "0", "2.5", "-3", "0.001", "1234567.890123", ".5", "7.", "-0.0", "100"};
    std::string u = unitsNames.empty() ? "dimensionless" : src.pick(unitsNames);
    Expr e = Expr::cn(0, u, src.pick(nums));
    e.num = strtod(e.text.c_str(), nullptr);
    if (k == 8) {
        e.op = Op::CNE;
        e.exp10 = src.range(-5, 5);
    }
    return e;
}

Expr genExpr(Src &src, const std::vector<std::string> &vars, const std::vector<std::string> &unitsNames, int depth)
{
    if (depth <= 0 || src.below(4) == 0) {
        return genLeaf(src, vars, unitsNames);
    }
    static const std::vector<Op> unary = {Op::NOT, Op::ABS, Op::EXP, Op::LN, Op::CEILING, Op::FLOOR, Op::SIN, Op::COS, Op::TAN, Op::SEC, Op::CSC, Op::COT, Op::SINH, Op::COSH, Op::TANH, Op::SECH, Op::CSCH, Op::COTH,
                                          Op::ASIN, Op::ACOS, Op::ATAN, Op::ASEC, Op::ACSC, Op::ACOT, Op::ASINH, Op::ACOSH, Op::ATANH, Op::ASECH, Op::ACSCH, Op::ACOTH};
    static const std::vector<Op> binary = {Op::EQ, Op::NEQ, Op::LT, Op::LEQ, Op::GT, Op::GEQ, Op::DIVIDE, Op::POWER, Op::REM};
    static const std::vector<Op> nary = {Op::AND, Op::OR, Op::XOR, Op::PLUS, Op::TIMES, Op::MIN, Op::MAX};
    auto sub = [&]() { return genExpr(src, vars, unitsNames, depth - 1); };
    switch (src.below(8)) {
    case 0: return Expr::make(src.pick(unary), {sub()});
    case 1: return Expr::make(src.pick(binary), {sub(), sub()});
    case 2: {
        Op o = src.pick(nary);
        std::vector<Expr> k;
        size_t n = 2 + src.below(3);
        for (size_t i = 0; i < n; ++i) {
            k.push_back(sub());
        }
        return Expr::make(o, k);
    }
    case 3: return src.flip(50) ? Expr::make(Op::MINUS, {sub()}) : Expr::make(Op::MINUS, {sub(), sub()});
    case 4: return src.flip(50) ? Expr::make(Op::ROOT, {sub()}) : Expr::make(Op::ROOT, {sub(), sub()});
    case 5: return src.flip(50) ? Expr::make(Op::LOG, {sub()}) : Expr::make(Op::LOG, {sub(), sub()});
    case 6: {
        Expr e;
        e.op = Op::PIECEWISE;
        size_t pieces = 1 + src.below(2);
        for (size_t i = 0; i < pieces; ++i) {
            e.kids.push_back(sub());
            e.kids.push_back(sub());
        }
        e.hasOtherwise = src.flip(60);
        if (e.hasOtherwise) {
            e.kids.push_back(sub());
        }
        return e;
    }
    default: return Expr::make(Op::PLUS, {sub(), sub()});
    }
}

// ------------------------------------------------------------------------------------------------ interfaces

std::string requiredInterface(const ModelSpec &spec, int comp, int var)
{
    bool pub = false, priv = false;
    auto parentOf = [&](int c) { return spec.comps[static_cast<size_t>(c)].parent; };
    for (const auto &cn : spec.conns) {
        for (const auto &m : cn.maps) {
            int other = -1;
            if (cn.c1 == comp && m.v1 == var) {
                other = cn.c2;
            } else if (cn.c2 == comp && m.v2 == var) {
                other = cn.c1;
            }
            if (other < 0) {
                continue;
            }
            if (parentOf(other) == comp) {
                priv = true; // the other variable lives in a child component
            } else if (parentOf(other) == parentOf(comp) || parentOf(comp) == other) {
                pub = true; // sibling or parent
            }
        }
    }
    if (pub && priv) {
        return "public_and_private";
    }
    if (pub) {
        return "public";
    }
    if (priv) {
        return "private";
    }
    return "none";
}

// ------------------------------------------------------------------------------------------------ valid model

ModelSpec genValidModel(Src &src, const GenOpts &opt)
{
    ModelSpec m;
    std::set<std::string> ids, unitsNames, compNames, modelNames;
    const bool h = opt.hostileText;
    auto maybeId = [&](unsigned pct) -> std::string {
        if (!opt.ids || !src.flip(pct)) {
            return "";
        }
        return genXmlId(src, ids, h);
    };
    // Plan first: the decisions that shape the model are drawn at the start of the tape, so that a short tape (reads
    // past the end give 0 = the simplest choice) still yields all features, only with simple details.
    const size_t nComps = 1 + src.below(static_cast<uint64_t>(opt.maxComps));
    const size_t nUnits = opt.units ? src.below(static_cast<uint64_t>(opt.maxUnits) + 1) : 0;
    const size_t nImports = (opt.imports && src.flip(35)) ? 1 + src.below(2) : 0;
    const size_t connAttempts = opt.connections ? src.below(7) : 0;
    const uint64_t mathMask = opt.math ? src.below(1ULL << nComps) : 0;
    const uint64_t resetMask = (opt.resets && !opt.v1x && src.flip(50)) ? src.below(1ULL << nComps) : 0;
    std::vector<int> planParent(nComps, -1);
    std::vector<size_t> planVars(nComps, 0);
    for (size_t i = 0; i < nComps; ++i) {
        if (opt.encapsulation && i > 0) {
            planParent[i] = static_cast<int>(src.below(i + 1)) - 1;
        }
        planVars[i] = src.below(static_cast<uint64_t>(opt.maxVars) + 1);
    }
    m.name = genIdent(src, modelNames, h);
    m.id = maybeId(30);

    // imports
    for (size_t i = 0; i < nImports; ++i) {
        ImportSpec is;
        static const std::vector<std::string> urls = {"lib0.cellml", "sub/lib1.cellml", "../other.xml", "lib0.cellml", "http://example.org/m.cellml"};
        static const std::vector<std::string> hostileUrls = {"m?a=1&b=2", "a b.cellml", "x<y>.cellml", "\xC3\xBC.cellml", "it's.cellml"};
        is.url = h && src.flip(50) ? src.pick(hostileUrls) : src.pick(urls);
        is.id = maybeId(30);
        m.imports.push_back(is);
    }

    // units
    static const std::vector<std::string> stdPool = {"dimensionless", "second", "metre", "kilogram", "volt", "ampere", "mole", "litre", "gram", "newton", "siemens", "farad", "kelvin", "hertz", "coulomb"};
    std::set<std::pair<int, std::string>> importedUnitRefs;
    for (size_t i = 0; i < nUnits; ++i) {
        UnitsSpec u;
        u.name = genIdent(src, unitsNames, h);
        u.id = maybeId(30);
        if (!m.imports.empty() && src.flip(25)) {
            u.import = static_cast<int>(src.below(m.imports.size()));
            std::set<std::string> dummy;
            u.importRef = genIdent(src, dummy, h);
            // the same (source url, reference) pair must not be imported twice
            bool clash = false;
            for (const auto &o : m.units) {
                if (o.import >= 0 && m.imports[static_cast<size_t>(o.import)].url == m.imports[static_cast<size_t>(u.import)].url && o.importRef == u.importRef) {
                    clash = true;
                }
            }
            if (clash) {
                u.importRef += "_" + std::to_string(i);
            }
            m.units.push_back(u);
            continue;
        }
        size_t nChildren = src.below(4); // 0 = base unit
        for (size_t k = 0; k < nChildren; ++k) {
            UnitSpec c;
            // reference a standard unit or an earlier local definition (acyclic by construction)
            std::vector<std::string> earlier;
            for (const auto &o : m.units) {
                if (o.import < 0) {
                    earlier.push_back(o.name);
                }
            }
            if (!earlier.empty() && src.flip(40)) {
                c.ref = src.pick(earlier);
            } else {
                c.ref = src.pick(stdPool);
            }
            switch (src.below(5)) {
            case 1: c.prefix = src.pick(namedPrefixes()).first; break;
            case 2: c.prefix = std::to_string(src.range(-6, 6)); break;
            case 3: c.prefix = opt.v1x ? "3" : "+3"; break;
            default: break;
            }
            if (c.prefix == "0") {
                c.prefix = "";
            }
            static const std::vector<double> exps = {1, 1, 2, -1, 3, -2, 0.5, 1.5, -0.5, 2.5, 1.234567890123, -3};
            static const std::vector<double> mults = {1, 1, 1000, 0.001, 2.5, 1e-9, 60, 3600, 1.23456789012345, 0.1, 1e6, 98.7654321};
            c.exponent = src.pick(exps);
            c.multiplier = src.pick(mults);
            c.id = maybeId(20);
            u.units.push_back(c);
        }
        m.units.push_back(u);
    }
    std::vector<std::string> usableUnits; // names a variable or cn may use
    for (const auto &s : stdPool) {
        usableUnits.push_back(s);
    }
    for (const auto &u : m.units) {
        usableUnits.push_back(u.name);
    }

    // components
    for (size_t i = 0; i < nComps; ++i) {
        CompSpec c;
        c.name = genIdent(src, compNames, h);
        c.id = maybeId(30);
        if (planParent[i] >= 0 && m.depthOf(planParent[i]) < 3) {
            c.parent = planParent[i];
        }
        bool imported = !m.imports.empty() && src.flip(25);
        if (imported) {
            c.import = static_cast<int>(src.below(m.imports.size()));
            std::set<std::string> dummy;
            c.importRef = genIdent(src, dummy, h);
        }
        std::set<std::string> varNames;
        size_t nVars = planVars[i];
        if (imported) {
            nVars = std::min<size_t>(nVars, 2); // placeholders, only kept if they take part in a connection
        }
        for (size_t k = 0; k < nVars; ++k) {
            VarSpec v;
            v.name = genIdent(src, varNames, h);
            if (!imported) {
                v.id = maybeId(25);
                v.units = src.pick(usableUnits);
            }
            c.vars.push_back(v);
        }
        m.comps.push_back(c);
    }
    // initial values (real text or a sibling variable)
    for (auto &c : m.comps) {
        if (c.import >= 0) {
            continue;
        }
        for (size_t k = 0; k < c.vars.size(); ++k) {
            if (!src.flip(40)) {
                continue;
            }
            static const std::vector<std::string> reals = {"0", "1", "-1.5", "3.0e2", "1E-3", ".25", "7.", "-0", "12345678.9012345", "6.02e23", "1e-300"};
            static const std::vector<std::string> plainReals = {"0", "1", "-1.5", "300", "0.001", "0.25", "7", "12345678.9012345"};
            static const std::vector<std::string> hostileVals = {"a&b", "<1>", "\"", "one", "1 2"};
            if (h && src.flip(30)) {
                c.vars[k].initial = src.pick(hostileVals);
            } else if (c.vars.size() > 1 && src.flip(15)) {
                size_t o = src.below(c.vars.size() - 1);
                c.vars[k].initial = c.vars[o >= k ? o + 1 : o].name;
            } else {
                c.vars[k].initial = opt.v1x ? src.pick(plainReals) : src.pick(reals);
            }
        }
    }

    // connections: sibling or parent/child component pairs, compatible units
    if (opt.connections && m.comps.size() > 1) {
        size_t attempts = connAttempts;
        std::set<std::pair<std::pair<int, int>, std::pair<int, int>>> linked;
        for (size_t a = 0; a < attempts; ++a) {
            int c1 = static_cast<int>(src.below(m.comps.size()));
            int c2 = static_cast<int>(src.below(m.comps.size() - 1));
            if (c2 >= c1) {
                ++c2;
            }
            if (c1 > c2) {
                std::swap(c1, c2);
            }
            const auto &A = m.comps[static_cast<size_t>(c1)];
            const auto &B = m.comps[static_cast<size_t>(c2)];
            bool reachable = A.parent == B.parent || B.parent == c1 || A.parent == c2;
            if (!reachable || A.vars.empty() || B.vars.empty()) {
                continue;
            }
            if (A.import >= 0 && B.import >= 0) {
                continue;
            }
            int v1 = static_cast<int>(src.below(A.vars.size()));
            int v2 = static_cast<int>(src.below(B.vars.size()));
            if (linked.count({{c1, v1}, {c2, v2}}) != 0) {
                continue;
            }
            // units compatibility (placeholders of imported components have no units)
            if (A.import < 0 && B.import < 0) {
                const std::string &u1 = A.vars[static_cast<size_t>(v1)].units;
                const std::string &u2 = B.vars[static_cast<size_t>(v2)].units;
                bool okUnits = u1 == u2;
                if (!okUnits) {
                    UnitsRed r1 = reduceUnits(m, u1), r2 = reduceUnits(m, u2);
                    okUnits = sameBase(r1, r2) && (opt.scaledConnections || std::fabs(r1.log10scale - r2.log10scale) < 1e-12);
                    if (!okUnits && A.import < 0 && src.flip(70)) {
                        // make them compatible by giving the second variable the units of the first
                        m.comps[static_cast<size_t>(c2)].vars[static_cast<size_t>(v2)].units = u1;
                        okUnits = true;
                    }
                }
                if (!okUnits) {
                    continue;
                }
            }
            linked.insert({{c1, v1}, {c2, v2}});
            ConnSpec *cs = nullptr;
            for (auto &x : m.conns) {
                if (x.c1 == c1 && x.c2 == c2) {
                    cs = &x;
                }
            }
            if (cs == nullptr) {
                ConnSpec n;
                n.c1 = c1;
                n.c2 = c2;
                n.id = maybeId(30);
                m.conns.push_back(n);
                cs = &m.conns.back();
            }
            MapSpec ms;
            ms.v1 = v1;
            ms.v2 = v2;
            ms.id = maybeId(30);
            cs->maps.push_back(ms);
        }
    }
    // imported components keep only the placeholder variables that are connected
    for (size_t ci = 0; ci < m.comps.size(); ++ci) {
        auto &c = m.comps[ci];
        if (c.import < 0) {
            continue;
        }
        std::vector<int> remap(c.vars.size(), -1);
        std::vector<VarSpec> kept;
        for (size_t k = 0; k < c.vars.size(); ++k) {
            bool used = false;
            for (const auto &cn : m.conns) {
                for (const auto &mp : cn.maps) {
                    used = used || (cn.c1 == static_cast<int>(ci) && mp.v1 == static_cast<int>(k)) || (cn.c2 == static_cast<int>(ci) && mp.v2 == static_cast<int>(k));
                }
            }
            if (used) {
                remap[k] = static_cast<int>(kept.size());
                kept.push_back(c.vars[k]);
            }
        }
        c.vars = kept;
        for (auto &cn : m.conns) {
            for (auto &mp : cn.maps) {
                if (cn.c1 == static_cast<int>(ci)) {
                    mp.v1 = remap[static_cast<size_t>(mp.v1)];
                }
                if (cn.c2 == static_cast<int>(ci)) {
                    mp.v2 = remap[static_cast<size_t>(mp.v2)];
                }
            }
        }
    }
    // interfaces
    for (size_t ci = 0; ci < m.comps.size(); ++ci) {
        auto &c = m.comps[ci];
        if (c.import >= 0) {
            continue;
        }
        for (size_t k = 0; k < c.vars.size(); ++k) {
            std::string req = requiredInterface(m, static_cast<int>(ci), static_cast<int>(k));
            std::vector<std::string> ok;
            if (req == "none") {
                ok = {"", "", "none", "public", "private", "public_and_private"};
            } else if (req == "public") {
                ok = {"public", "public", "public_and_private"};
            } else if (req == "private") {
                ok = {"private", "private", "public_and_private"};
            } else {
                ok = {"public_and_private"};
            }
            c.vars[k].iface = src.pick(ok);
            if (opt.v1x && c.vars[k].iface == "none") {
                c.vars[k].iface = ""; // 1.x: "none" is the default; explicit none is a writer option
            }
        }
    }
    // encapsulation ids (only representable on components that take part in the encapsulation)
    bool anyEncapsulation = false;
    for (size_t ci = 0; ci < m.comps.size(); ++ci) {
        bool inEnc = m.comps[ci].parent >= 0 || !m.childrenOf(static_cast<int>(ci)).empty();
        anyEncapsulation = anyEncapsulation || inEnc;
        if (inEnc) {
            m.comps[ci].encId = maybeId(25);
        }
    }
    if (anyEncapsulation && !opt.v1x) {
        m.encId = maybeId(30);
    }

    // math
    if (opt.math) {
        for (size_t mi = 0; mi < m.comps.size(); ++mi) {
            auto &c = m.comps[mi];
            if (c.import >= 0 || c.vars.empty() || ((mathMask >> mi) & 1) == 0) {
                continue;
            }
            std::vector<std::string> names;
            for (const auto &v : c.vars) {
                names.push_back(v.name);
            }
            size_t blocks = 1 + src.below(2);
            for (size_t b = 0; b < blocks; ++b) {
                std::vector<std::pair<Expr, Expr>> eqs;
                size_t n = 1 + src.below(2);
                for (size_t e = 0; e < n; ++e) {
                    Expr lhs = Expr::ci(src.pick(names));
                    if (names.size() > 1 && src.flip(20)) {
                        lhs = Expr::make(Op::DIFF, {Expr::ci(names[0]), Expr::ci(names[1])});
                    }
                    eqs.emplace_back(lhs, genExpr(src, names, usableUnits, 3));
                }
                c.math.push_back(mathBlock(eqs, static_cast<int>(src.below(3))));
                c.equations.insert(c.equations.end(), eqs.begin(), eqs.end());
            }
        }
    }
    // resets
    if (opt.resets && !opt.v1x) {
        int nextOrder = src.range(-3, 3);
        for (size_t ri = 0; ri < m.comps.size(); ++ri) {
            auto &c = m.comps[ri];
            if (c.import >= 0 || c.vars.empty() || ((resetMask >> ri) & 1) == 0) {
                continue;
            }
            std::vector<std::string> names;
            for (const auto &v : c.vars) {
                names.push_back(v.name);
            }
            size_t n = 1 + src.below(2);
            for (size_t k = 0; k < n; ++k) {
                ResetSpec r;
                r.id = maybeId(30);
                r.var = static_cast<int>(src.below(c.vars.size()));
                r.testVar = static_cast<int>(src.below(c.vars.size()));
                r.hasOrder = true;
                r.order = nextOrder;
                nextOrder += 1 + static_cast<int>(src.below(3));
                r.testValue = mathBlockRaw(exprToMathml(genExpr(src, names, usableUnits, 1)), static_cast<int>(src.below(3)));
                r.resetValue = mathBlockRaw(exprToMathml(genExpr(src, names, usableUnits, 2)), static_cast<int>(src.below(3)));
                r.testValueId = maybeId(25);
                r.resetValueId = maybeId(25);
                c.resets.push_back(r);
            }
        }
    }
    return m;
}

} // namespace vp

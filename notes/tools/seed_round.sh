#!/bin/bash
# /tmp/seed_round.sh <n> <ID>...   confirm, copy to seeded/<ID>-<n>, run check(s), remove worktree
n=$1; shift
cd /verif
for p in "$@"; do
  echo "=== $p"
  /tmp/confirm_seed.sh $p 2>&1 | grep -v -i conda | grep 'tests passed\|demo W'
  mkdir -p seeded/$p-$n; cp /tmp/seed-$p-out/patch.diff /tmp/seed-$p-out/demo.cpp /tmp/seed-$p-out/README.md seeded/$p-$n/ 2>/dev/null
  ls /tmp/seed-$p-out/ | tr '\n' ' '; echo
  bin/mutation_check.sh $p seeded/$p-$n/patch.diff 2>&1 | grep -v -i conda | grep -v '^NOTE\|^KNOWN' | cut -c1-300 | tail -2
  git -C /repo worktree remove --force /tmp/seed-$p; rm -rf /tmp/seed-$p-out /tmp/seed-$p.prompt.txt /tmp/seed-$p.property.txt
done
git -C /repo worktree prune

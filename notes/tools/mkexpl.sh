#!/bin/bash
p=$1
git -C /repo worktree add -f --detach /tmp/expl-$p HEAD >/dev/null 2>&1
python3 - "$p" <<'PY'
import json,sys
p=sys.argv[1]
for l in open('/verif/properties.jsonl'):
    d=json.loads(l)
    if d.get('id')==p:
        open(f'/tmp/expl-{p}.property.txt','w').write(json.dumps(d,indent=1,ensure_ascii=False))
t=open('/tmp/explore-prompt.txt').read().replace('__ID__',p)
open(f'/tmp/expl-{p}.prompt.txt','w').write(t)
PY
echo "$p ready"

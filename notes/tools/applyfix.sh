#!/bin/bash
# /tmp/applyfix.sh <diff> <message>
set -e
cd /repo
patch -p1 --no-backup-if-mismatch < "$1"
git add -u
git commit -q -m "$2"
git log --oneline | head -1

#!/bin/bash
# /tmp/mkseed.sh <ID> : create worktree, property file and prompt (round 2: tells the agent what was already done)
p=$1
git -C /repo worktree add -f --detach /tmp/seed-$p HEAD >/dev/null 2>&1
python3 - "$p" <<'PY'
import json,sys,glob,os
p=sys.argv[1]
for l in open('/verif/properties.jsonl'):
    d=json.loads(l)
    if d.get('id')==p:
        open(f'/tmp/seed-{p}.property.txt','w').write(json.dumps(d,indent=1,ensure_ascii=False))
prev=[]
for m in sorted(glob.glob(f'/verif/seeded/{p}-*/meta.json')):
    prev.append(json.load(open(m))['summary'])
t=open('/tmp/seed-prompt.txt').read().replace('__ID__',p)
if prev:
    t+="\n\nAn earlier exercise of this kind already produced the following change(s) for this property; yours must be DIFFERENT: another function, another mechanism, preferably another source file and another clause of the property:\n"+"\n".join("- "+s for s in prev)+"\n"
open(f'/tmp/seed-{p}.prompt.txt','w').write(t)
PY
echo "$p ready"

#!/bin/bash
cd /verif
for p in "$@"; do
  s=$(date +%s)
  bin/check $p quick > /verif/.build/run/all-$p.log 2>&1
  rc=$?
  e=$(date +%s)
  echo "$p rc=$rc $((e-s))s $(grep -c '^KNOWN-FINDING' /verif/.build/run/all-$p.log) known; $(grep '^SUMMARY' /verif/.build/run/all-$p.log | cut -c1-150)"
  grep "^VIOLATION-DETAIL\|^CHECK-BROKEN\|^GENERATOR-HEALTH" /verif/.build/run/all-$p.log | sort | uniq -c | head -5
done

#!/bin/bash
cd /verif
for p in "$@"; do
  s=$(date +%s)
  VERIF_OUT=/verif/.build/thorough/out bin/check $p thorough > /verif/.build/thorough/$p.log 2>&1
  rc=$?
  e=$(date +%s)
  echo "$p rc=$rc $((e-s))s $(grep '^SUMMARY' /verif/.build/thorough/$p.log | cut -c1-160)" >> /verif/.build/thorough/summary.txt
  grep "^VIOLATION-DETAIL\|^CHECK-BROKEN\|^GENERATOR-HEALTH" /verif/.build/thorough/$p.log | sort | uniq -c | head -8 >> /verif/.build/thorough/summary.txt
done

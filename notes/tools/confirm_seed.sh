#!/bin/bash
# confirm_seed.sh <ID>: re-verify a seeded change in its worktree: suite with change, demo with and without change.
ID=$1; W=/tmp/seed-$ID; O=/tmp/seed-$ID-out
cd $W || exit 2
LIB=$(ls _b/src/libcellml*.so 2>/dev/null | head -1); LN=$(basename $LIB .so | sed 's/^lib//')
build_demo() { g++ -std=c++17 -I$W/src/api -I$W/src/api/libcellml/module -I$W/_b/src/api $O/demo.cpp -L$W/_b/src -l$LN -Wl,-rpath,$W/_b/src -Wl,-rpath,/root/miniconda/lib -o $O/demo.bin 2>&1 | tail -3; }
git diff --stat | tail -1
ninja -C _b -j8 >/dev/null 2>&1
(cd _b && ctest -j8 2>&1 | grep -E "tests passed|\(Failed\)" | tr '\n' ' '); echo
build_demo; $O/demo.bin >/dev/null 2>&1; echo "demo WITH change: exit $?"
git stash -q; ninja -C _b -j8 >/dev/null 2>&1; build_demo; $O/demo.bin >/dev/null 2>&1; echo "demo WITHOUT change: exit $?"
git stash pop -q; git diff --stat | tail -1
